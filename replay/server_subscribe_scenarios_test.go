package server

// Replay scenario for the subscription range obligations (property C10): the REAL subscribe loop is
// run over a reader that yields a sparse (compacted) offset sequence, for several stop offsets; the
// delivered offsets must be exactly the reader's offsets up to the stop offset, followed by the
// "Stop offset reached" status.

import (
	"context"
	"fmt"
	"os"
	"strings"
	"testing"
	"time"

	client "github.com/liftbridge-io/liftbridge-api/v2/go"
	"google.golang.org/grpc/codes"
	"google.golang.org/grpc/status"

	"github.com/liftbridge-io/liftbridge/server/commitlog"
	proto "github.com/liftbridge-io/liftbridge/server/protocol"
)

type lbvcStubReader struct {
	offs []int64
	i    int
}

func (s *lbvcStubReader) ReadMessage(ctx context.Context, hb []byte) (commitlog.SerializedMessage, int64, int64, uint64, error) {
	if s.i >= len(s.offs) {
		<-ctx.Done()
		return nil, 0, 0, 0, fmt.Errorf("context done")
	}
	o := s.offs[s.i]
	s.i++
	raw := []byte{0, 0, 0, 0, 1, 0, 0xFF, 0xFF, 0xFF, 0xFF, 0, 0, 0, 1, 'v', 0, 0}
	return commitlog.SerializedMessage(raw), o, 0, 0, nil
}

func TestLbvcScenarioSubscribeRange(t *testing.T) {
	var problems []string
	cases := []struct {
		offs []int64
		stop int64
	}{
		{[]int64{0, 1, 2, 3}, 2}, {[]int64{0, 2, 3}, 1}, {[]int64{4, 7, 8, 9}, 6}, {[]int64{4, 7, 8, 9}, 7}, {[]int64{0, 5}, 5}, {[]int64{3, 4}, 10},
	}
	for _, cse := range cases {
		p := &partition{Partition: &proto.Partition{Stream: "s"}, consumers: map[string]*groupMember{}}
		ch := make(chan *client.Message)
		errCh := make(chan *status.Status)
		cancel := make(chan struct{})
		ctx, c := context.WithTimeout(context.Background(), 400*time.Millisecond)
		go p.newSubscribeLoop(ctx, "", "", &lbvcStubReader{offs: cse.offs}, cse.stop, ch, errCh, cancel, false)()
		var got []int64
		var st *status.Status
	recv:
		for {
			select {
			case m := <-ch:
				got = append(got, m.Offset)
			case st = <-errCh:
				break recv
			case <-time.After(2 * time.Second):
				break recv
			}
		}
		c()
		close(cancel)
		var want []int64
		exhausted := false
		for _, o := range cse.offs {
			if o <= cse.stop {
				want = append(want, o)
			} else {
				exhausted = true
			}
			if o == cse.stop {
				exhausted = true
			}
		}
		if fmt.Sprint(got) != fmt.Sprint(want) {
			problems = append(problems, fmt.Sprintf("reader offsets %v, stop offset %d: delivered %v, expected %v", cse.offs, cse.stop, got, want))
		}
		if exhausted && (st == nil || st.Code() != codes.ResourceExhausted) {
			problems = append(problems, fmt.Sprintf("reader offsets %v, stop offset %d: range exhausted but the subscription did not end with ResourceExhausted (status %v)", cse.offs, cse.stop, st))
		}
	}
	if len(problems) > 0 {
		t.Fatalf("LBVC-REPRODUCED (obligation %s): %s", os.Getenv("LBVC_OBLIGATION"), strings.Join(problems, "; "))
	}
}
