package server

// Replay scenario (property C06: "Replay never ... brings back a stream that was deleted", "rebuilds its state from any
// snapshot-plus-log-replay split"): Raft may take a snapshot of the state machine between two applies, also while the
// log is being replayed after a restart. A stream whose deletion has been replayed is only tombstoned until the replay
// ends - a snapshot taken then must not store it: a restart from that snapshot would bring the deleted stream back, and
// if the log goes on to re-create the stream the server could not start at all.

import (
	"bytes"
	"fmt"
	"io"
	"os"
	"strings"
	"testing"

	proto "github.com/liftbridge-io/liftbridge/server/protocol"
)

type lbvcSnapSink struct{ bytes.Buffer }

func (s *lbvcSnapSink) ID() string    { return "lbvc" }
func (s *lbvcSnapSink) Cancel() error { return nil }
func (s *lbvcSnapSink) Close() error  { return nil }

func lbvcCreateOp(name string) *proto.RaftLog {
	return &proto.RaftLog{Op: proto.Op_CREATE_STREAM, CreateStreamOp: &proto.CreateStreamOp{Stream: &proto.Stream{Name: name, Subject: name,
		Partitions: []*proto.Partition{{Stream: name, Subject: name, Id: 0, ReplicationFactor: 1, Replicas: []string{"a"}, Isr: []string{"a"}, Leader: "a"}}}}}
}

func TestLbvcScenarioSnapshotDuringReplay(t *testing.T) {
	defer cleanupStorage(t)
	var problems []string
	first := New(getTestConfig("first", true, 0))
	defer first.metadata.Reset()
	if _, err := first.apply(lbvcCreateOp("foo"), 1, true); err != nil {
		t.Skipf("setup: %v", err)
	}
	if _, err := first.apply(lbvcCreateOp("kept"), 2, true); err != nil {
		t.Skipf("setup: %v", err)
	}
	if _, err := first.apply(&proto.RaftLog{Op: proto.Op_DELETE_STREAM, DeleteStreamOp: &proto.DeleteStreamOp{Stream: "foo"}}, 3, true); err != nil {
		t.Skipf("setup: %v", err)
	}
	var sink lbvcSnapSink
	snap, err := first.Snapshot()
	if err != nil || snap.Persist(&sink) != nil {
		t.Skip("setup: snapshot")
	}
	decoded := &proto.MetadataSnapshot{}
	if err := decoded.Unmarshal(sink.Bytes()[4:]); err != nil {
		t.Skipf("setup: %v", err)
	}
	var names []string
	for _, st := range decoded.Streams {
		names = append(names, st.Name)
	}
	if fmt.Sprint(names) != "[kept]" {
		problems = append(problems, fmt.Sprintf("log [1: create foo, 2: create kept, 3: delete foo] replayed, snapshot taken after entry 3: it stores the streams %v, the streams that exist are [kept]", names))
	}
	second := New(getTestConfig("second", true, 0))
	defer second.metadata.Reset()
	if err := second.Restore(io.NopCloser(bytes.NewReader(sink.Bytes()))); err == nil {
		if second.metadata.GetStream("foo") != nil {
			problems = append(problems, "a server restarted from that snapshot has the deleted stream foo again")
		}
		if second.metadata.GetStream("kept") == nil {
			problems = append(problems, "a server restarted from that snapshot has lost the stream kept")
		}
		if _, err := second.apply(lbvcCreateOp("foo"), 4, true); err != nil {
			problems = append(problems, fmt.Sprintf("replaying entry 4 (create foo) after that snapshot fails - Server.Apply panics on it: %v", err))
		}
	}
	if len(problems) > 0 {
		t.Fatalf("LBVC-REPRODUCED (obligation %s): %s", os.Getenv("LBVC_OBLIGATION"), strings.Join(problems, "; "))
	}
}
