// Copy into server/ (package server). Stress reproduction of a check-then-act
// race in metadataAPI.ReportLeader on the UNCHANGED code.
package server

import (
	"context"
	"fmt"
	"sync"
	"testing"
	"time"

	"github.com/stretchr/testify/require"

	proto "github.com/liftbridge-io/liftbridge/server/protocol"
)

type seedBaseListener struct{ f func(*RaftLog) }

func (l *seedBaseListener) Receive(log *RaftLog) { l.f(log) }

// Partition with replicas b (leader), c, d, all in sync; the server under test
// ("a") is only the controller. c and d keep reporting (b, epoch) - and
// nothing else, ever - from a few goroutines each. That justifies exactly one
// leader change (b -> c or d). No report ever names the new leader, so there
// must not be a second change.
func TestLbvcScenarioStaleReportsDeposeNewLeader(t *testing.T) {
	defer cleanupStorage(t)

	config := getTestConfig("a", true, 0)
	config.Clustering.ReplicaMaxLeaderTimeout = time.Minute
	s := runServerWithConfig(t, config)
	defer s.Stop()
	getMetadataLeader(t, 10*time.Second, s)

	var (
		mu      sync.Mutex
		changes = map[string][]string{}
	)
	s.AddRaftLogListener(&seedBaseListener{func(log *RaftLog) {
		l := &proto.RaftLog{}
		if err := l.Unmarshal(log.Data); err != nil {
			return
		}
		if l.Op == proto.Op_CHANGE_LEADER {
			mu.Lock()
			changes[l.ChangeLeaderOp.Stream] = append(changes[l.ChangeLeaderOp.Stream],
				fmt.Sprintf("%s@%d", l.ChangeLeaderOp.Leader, log.Index))
			mu.Unlock()
		}
	}})

	const trials = 60
	bad := 0
	for trial := 0; trial < trials; trial++ {
		name := fmt.Sprintf("foo%d", trial)
		op := &proto.RaftLog{
			Op: proto.Op_CREATE_STREAM,
			CreateStreamOp: &proto.CreateStreamOp{
				Stream: &proto.Stream{
					Name:    name,
					Subject: name,
					Partitions: []*proto.Partition{{
						Subject:           name,
						Stream:            name,
						Id:                0,
						ReplicationFactor: 3,
						Replicas:          []string{"b", "c", "d"},
						Isr:               []string{"b", "c", "d"},
						Leader:            "b",
					}},
				},
			},
		}
		ctx, cancel := context.WithTimeout(context.Background(), 10*time.Second)
		future, err := s.getRaft().applyOperation(ctx, op, s.metadata.checkCreateStreamPreconditions)
		require.NoError(t, err)
		require.NoError(t, future.Error())
		cancel()
		p := s.metadata.GetPartition(name, 0)
		require.NotNil(t, p)
		leader, epoch := p.GetLeader()
		require.Equal(t, "b", leader)

		var (
			wg   sync.WaitGroup
			stop = make(chan struct{})
		)
		for _, replica := range []string{"c", "d"} {
			for k := 0; k < 4; k++ {
				wg.Add(1)
				go func(replica string) {
					defer wg.Done()
					for {
						select {
						case <-stop:
							return
						default:
						}
						// Always the same report: replica saw (b, epoch) fail.
						s.metadata.ReportLeader(context.Background(), &proto.ReportLeaderOp{
							Stream:      name,
							Partition:   0,
							Replica:     replica,
							Leader:      "b",
							LeaderEpoch: epoch,
						})
					}
				}(replica)
			}
		}

		deadline := time.Now().Add(10 * time.Second)
		for time.Now().Before(deadline) {
			if l, _ := p.GetLeader(); l != "b" {
				break
			}
			time.Sleep(time.Millisecond)
		}
		time.Sleep(20 * time.Millisecond)
		close(stop)
		wg.Wait()

		mu.Lock()
		c := append([]string(nil), changes[name]...)
		mu.Unlock()
		if len(c) != 1 {
			bad++
			t.Logf("trial %d: reports only ever named b@%d, leader changes applied: %v", trial, epoch, c)
		}
	}
	require.Zero(t, bad, "in %d of %d trials a leader that nobody reported was replaced", bad, trials)
}
