package server

// Replay scenario for the cursor obligations (property C11): a single-node server with a one-partition cursors
// stream; SetCursor / FetchCursor over a family of (cursor id, stream, partition) triples - including ids and
// stream names containing the key separator, and the witness of a refuted lemma when one is passed in LBVC_INPUT -
// compared with a map oracle, with the cache on and off.

import (
	"context"
	"encoding/json"
	"fmt"
	"os"
	"strings"
	"testing"
	"time"

	client "github.com/liftbridge-io/liftbridge-api/v2/go"
)

type lbvcCursorKey struct {
	id, stream string
	part       int32
}

func TestLbvcScenarioCursors(t *testing.T) {
	defer cleanupStorage(t)
	cfg := getTestConfig("a", true, 5050)
	cfg.CursorsStream.Partitions = 1
	s1 := runServerWithConfig(t, cfg)
	defer s1.Stop()
	getMetadataLeader(t, 10*time.Second, s1)
	ready := false
	for i := 0; i < 200; i++ {
		if p := s1.metadata.GetPartition(cursorsStream, 0); p != nil && p.IsLeader() {
			ready = true
			break
		}
		time.Sleep(50 * time.Millisecond)
	}
	if !ready {
		t.Skip("cursors partition not available")
	}
	// keys that collide under the "<id>,<stream>,<partition>" format are only used when the failed obligation is
	// about the key itself; the other obligations are replayed on keys that cannot collide
	keys := []lbvcCursorKey{{"a", "b", 0}, {"a", "b", 1}, {"a", "c", 0}, {"k", "s", 10}, {"k2", "s", 10}, {"x", "y", 0}}
	if obl := os.Getenv("LBVC_OBLIGATION"); obl == "" || strings.Contains(obl, "cursorKeysDistinct") || strings.Contains(obl, "getCursorKey") {
		keys = append(keys, []lbvcCursorKey{{"a,b", "c", 0}, {"a", "b,c", 0}, {"x", "y,1", 0}, {"x,y", "1", 0}, {"k", "s,1", 0}}...)
	}
	// the witness of a refuted lemma, if any: id1,s1,p1 / id2,s2,p2
	var in []struct {
		Name  string      `json:"name"`
		Value interface{} `json:"value"`
	}
	if json.Unmarshal([]byte(os.Getenv("LBVC_INPUT")), &in) == nil && len(in) > 0 {
		w := map[string]interface{}{}
		for _, x := range in {
			w[x.Name] = x.Value
		}
		str := func(k string) string { s, _ := w[k].(string); return s }
		num := func(k string) int32 { f, _ := w[k].(float64); return int32(f) }
		if str("id1") != "" && str("s1") != "" && str("id2") != "" && str("s2") != "" {
			keys = append([]lbvcCursorKey{{str("id1"), str("s1"), num("p1")}, {str("id2"), str("s2"), num("p2")}}, keys...)
		}
	}
	var problems []string
	for _, cacheOff := range []bool{false, true} {
		s1.cursors.disableCache = cacheOff
		model := map[lbvcCursorKey]int64{}
		next := int64(40)
		if cacheOff {
			next = 400
		}
		fetch := func(k lbvcCursorKey, when string) {
			ctx, cancel := context.WithTimeout(context.Background(), 10*time.Second)
			defer cancel()
			resp, err := s1.api.FetchCursor(ctx, &client.FetchCursorRequest{Stream: k.stream, Partition: k.part, CursorId: k.id})
			if err != nil {
				problems = append(problems, fmt.Sprintf("FetchCursor(%q,%q,%d) failed: %v", k.id, k.stream, k.part, err))
				return
			}
			want, ok := model[k]
			if !ok {
				want = -1
			}
			if resp.Offset != want {
				problems = append(problems, fmt.Sprintf("cache disabled=%v, %s: FetchCursor(id=%q, stream=%q, partition=%d) returned %d, the last stored cursor is %d",
					cacheOff, when, k.id, k.stream, k.part, resp.Offset, want))
			}
		}
		if !cacheOff {
			for _, k := range keys {
				fetch(k, "before any SetCursor")
			}
		}
		for round := 0; round < 2; round++ {
			for i, k := range keys {
				if (i+round)%3 == 2 {
					continue // some cursors are never / rarely set
				}
				next++
				ctx, cancel := context.WithTimeout(context.Background(), 10*time.Second)
				_, err := s1.api.SetCursor(ctx, &client.SetCursorRequest{Stream: k.stream, Partition: k.part, CursorId: k.id, Offset: next})
				cancel()
				if err != nil {
					problems = append(problems, fmt.Sprintf("SetCursor(%q,%q,%d) failed: %v", k.id, k.stream, k.part, err))
					continue
				}
				model[k] = next
				// every cursor is read back after every store: a store for one key must not disturb another
				for _, k2 := range keys {
					fetch(k2, fmt.Sprintf("after SetCursor(id=%q, stream=%q, partition=%d, offset=%d)", k.id, k.stream, k.part, next))
				}
				if len(problems) > 8 {
					break
				}
			}
		}
		if cacheOff {
			continue
		}
		// becoming leader again purges the cache: values must come back from the log
		s1.cursors.BecomePartitionLeader()
		for _, k := range keys {
			fetch(k, "after a cache purge")
		}
	}
	if len(problems) > 0 {
		if len(problems) > 6 {
			problems = append(problems[:6], fmt.Sprintf("... and %d more", len(problems)-6))
		}
		t.Fatalf("LBVC-REPRODUCED (obligation %s): %s", os.Getenv("LBVC_OBLIGATION"), strings.Join(problems, "; "))
	}
}

// A fetch that misses the cache while a store for the same cursor is in flight must not leave the older value in
// the cache: once both calls have returned, a fetch returns the stored offset.
func TestLbvcScenarioCursorFetchDuringStore(t *testing.T) {
	defer cleanupStorage(t)
	cfg := getTestConfig("a", true, 5050)
	cfg.CursorsStream.Partitions = 1
	s1 := runServerWithConfig(t, cfg)
	defer s1.Stop()
	getMetadataLeader(t, 10*time.Second, s1)
	ready := false
	for i := 0; i < 200; i++ {
		if p := s1.metadata.GetPartition(cursorsStream, 0); p != nil && p.IsLeader() {
			ready = true
			break
		}
		time.Sleep(50 * time.Millisecond)
	}
	if !ready {
		t.Skip("cursors partition not available")
	}
	ctx, cancel := context.WithTimeout(context.Background(), 60*time.Second)
	defer cancel()
	set := func(off int64) error {
		_, err := s1.api.SetCursor(ctx, &client.SetCursorRequest{Stream: "foo", Partition: 0, CursorId: "cur", Offset: off})
		return err
	}
	get := func() (int64, error) {
		resp, err := s1.api.FetchCursor(ctx, &client.FetchCursorRequest{Stream: "foo", Partition: 0, CursorId: "cur"})
		if err != nil {
			return 0, err
		}
		return resp.Offset, nil
	}
	if err := set(1); err != nil {
		t.Skipf("setup failed: %v", err)
	}
	var problems []string
	for round := int64(2); round < 300 && len(problems) == 0; round++ {
		s1.cursors.BecomePartitionLeader() // empty cache: the next fetch reads the log
		// the fetch goes first (it misses the cache and starts reading the log), the store follows at once
		type res struct {
			off int64
			err error
		}
		fetched := make(chan res, 1)
		go func() { o, e := get(); fetched <- res{o, e} }()
		time.Sleep(time.Duration(round%9) * 50 * time.Microsecond)
		if err := set(round); err != nil {
			t.Skipf("store failed: %v", err)
		}
		fr := <-fetched
		if fr.err != nil {
			t.Skipf("fetch failed: %v", fr.err)
		}
		during := fr.off
		after, err := get()
		if err != nil {
			t.Skipf("fetch failed: %v", err)
		}
		if after != round {
			problems = append(problems, fmt.Sprintf("SetCursor(%d) succeeded and no later store was made, yet FetchCursor returns %d (a fetch running during the store returned %d and left it in the cache)", round, after, during))
		}
	}
	if len(problems) > 0 {
		t.Fatalf("LBVC-REPRODUCED (obligation %s): %s", os.Getenv("LBVC_OBLIGATION"), strings.Join(problems, "; "))
	}
}

// A cursor must not expire: with a server-wide age limit for streams (the default is 7 days; 1 second here), a cursor
// stored once, in a segment that has since been rolled, must still be returned after the cursors partition was cleaned.
func TestLbvcScenarioCursorRetention(t *testing.T) {
	defer cleanupStorage(t)
	cfg := getTestConfig("a", true, 5050)
	cfg.CursorsStream.Partitions = 1
	cfg.Streams.RetentionMaxAge = time.Second
	cfg.Streams.SegmentMaxBytes = 1
	s1 := runServerWithConfig(t, cfg)
	defer s1.Stop()
	getMetadataLeader(t, 10*time.Second, s1)
	var p *partition
	for i := 0; i < 200; i++ {
		if p = s1.metadata.GetPartition(cursorsStream, 0); p != nil && p.IsLeader() {
			break
		}
		time.Sleep(50 * time.Millisecond)
	}
	if p == nil || !p.IsLeader() {
		t.Skip("cursors partition not available")
	}
	s1.cursors.disableCache = true
	ctx, cancel := context.WithTimeout(context.Background(), 20*time.Second)
	defer cancel()
	if st := s1.cursors.SetCursor(ctx, "foo", "old-cursor", 0, 41); st != nil {
		t.Skipf("setup failed: %v", st.Err())
	}
	time.Sleep(1500 * time.Millisecond)
	// other cursors are stored later (each rolls a segment), then the partition is cleaned as the cleaner loop does
	for i := 0; i < 3; i++ {
		if st := s1.cursors.SetCursor(ctx, "foo", fmt.Sprintf("other-%d", i), 0, int64(i)); st != nil {
			t.Skipf("setup failed: %v", st.Err())
		}
	}
	if err := p.log.Clean(); err != nil {
		t.Skipf("clean failed: %v", err)
	}
	got, st := s1.cursors.GetCursor(ctx, "foo", "old-cursor", 0)
	if st != nil {
		t.Fatalf("LBVC-REPRODUCED (obligation %s): SetCursor(old-cursor, 41), %v later a clean of the cursors partition under the server-wide age limit of 1s (default: 7 days): FetchCursor fails: %v", os.Getenv("LBVC_OBLIGATION"), 1500*time.Millisecond, st.Err())
	}
	if got != 41 {
		t.Fatalf("LBVC-REPRODUCED (obligation %s): SetCursor(old-cursor, 41), 1.5s later a clean of the cursors partition under the server-wide age limit of 1s (the default is 7 days): FetchCursor returns %d - the cursor has expired", os.Getenv("LBVC_OBLIGATION"), got)
	}
}
