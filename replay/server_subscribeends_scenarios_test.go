package server

// Replay scenario for the subscription range on REAL partitions (property C10): start positions inside the
// uncommitted tail, new-only subscriptions while the watermark lags, and read-only partitions in both directions.
// "A subscription delivers exactly the committed messages still retained in the requested range, in the requested
// order, each once ... This holds on ... read-only partitions, which end at the end of the log."

import (
	"context"
	"fmt"
	"os"
	"strings"
	"testing"
	"time"

	client "github.com/liftbridge-io/liftbridge-api/v2/go"

	"github.com/liftbridge-io/liftbridge/server/commitlog"
	proto "github.com/liftbridge-io/liftbridge/server/protocol"
)

func lbvcRangePartition(t *testing.T, n int) *partition {
	s := createServer()
	s.config.Streams.SegmentMaxBytes = 1000
	p, err := s.newPartition(&proto.Partition{
		Subject: "foo", Stream: "foo", Replicas: []string{"a"}, Leader: "a", Isr: []string{"a"},
	}, false, nil)
	if err != nil {
		t.Skipf("setup failed: %v", err)
	}
	base := time.Now().UnixNano()
	for i := 0; i < n; i++ {
		if _, err := p.log.Append([]*commitlog.Message{{Value: []byte("v"), Timestamp: base + int64(10*i)}}); err != nil {
			t.Skipf("setup failed: %v", err)
		}
	}
	return p
}

func lbvcRangeRun(p *partition, req *client.SubscribeRequest, afterSubscribe func()) ([]int64, string) {
	ctx, cancel := context.WithCancel(context.Background())
	defer cancel()
	sub, st := p.Subscribe(ctx, req)
	if st != nil {
		return nil, "subscribe failed: " + st.Code().String() + ": " + st.Message()
	}
	defer sub.Close()
	if afterSubscribe != nil {
		afterSubscribe()
	}
	var got []int64
	for {
		select {
		case m := <-sub.Messages():
			got = append(got, m.Offset)
		case st := <-sub.Errors():
			return got, st.Code().String() + ": " + st.Message()
		case <-time.After(500 * time.Millisecond):
			return got, "waiting"
		}
	}
}

func TestLbvcScenarioSubscribeEnds(t *testing.T) {
	defer cleanupStorage(t)
	var problems []string
	only := os.Getenv("LBVC_OBLIGATION")
	stopSide := strings.Contains(only, "getStopOffset")
	startSide := strings.Contains(only, "Reader") || strings.Contains(only, "getStartOffset")
	all := !stopSide && !startSide
	if all || startSide {
		// start offset inside the uncommitted tail
		p := lbvcRangePartition(t, 10)
		p.log.SetHighWatermark(4)
		got, end := lbvcRangeRun(p, &client.SubscribeRequest{StartPosition: client.StartPosition_OFFSET, StartOffset: 8}, func() { p.log.SetHighWatermark(9) })
		if fmt.Sprint(got) != "[8 9]" || end != "waiting" {
			problems = append(problems, fmt.Sprintf("log 0..9, high watermark 4, subscription from offset 8, then the watermark moves to 9: delivered %v (%s), the requested range holds [8 9]", got, end))
		}
		p.Close()
		cleanupStorage(t)
		// new-only while the watermark lags
		p = lbvcRangePartition(t, 6)
		p.log.SetHighWatermark(2)
		got, end = lbvcRangeRun(p, &client.SubscribeRequest{StartPosition: client.StartPosition_NEW_ONLY}, func() {
			p.log.SetHighWatermark(5)
			if _, err := p.log.Append([]*commitlog.Message{{Value: []byte("v"), Timestamp: time.Now().UnixNano()}}); err != nil {
				problems = append(problems, "append: "+err.Error())
			}
			p.log.SetHighWatermark(6)
		})
		if fmt.Sprint(got) != "[6]" || end != "waiting" {
			problems = append(problems, fmt.Sprintf("log 0..5, high watermark 2, new-only subscription, then the watermark moves to 5, one message is published and committed: delivered %v (%s), the only new message is [6]", got, end))
		}
		p.Close()
		cleanupStorage(t)
	}
	if all || stopSide {
		// read-only partition, forwards: everything, then the end of the partition
		p := lbvcRangePartition(t, 10)
		p.log.SetHighWatermark(9)
		p.log.SetReadonly(true)
		got, end := lbvcRangeRun(p, &client.SubscribeRequest{StartPosition: client.StartPosition_EARLIEST}, nil)
		if fmt.Sprint(got) != "[0 1 2 3 4 5 6 7 8 9]" || !strings.HasPrefix(end, "ResourceExhausted") {
			problems = append(problems, fmt.Sprintf("read-only partition 0..9, subscription from the earliest offset: delivered %v (%s), expected 0..9 and then the end of the partition", got, end))
		}
		// read-only partition, backwards: the end of the LOG is where a reverse subscription starts, not where it ends
		got, end = lbvcRangeRun(p, &client.SubscribeRequest{StartPosition: client.StartPosition_LATEST, Reverse: true}, nil)
		if fmt.Sprint(got) != "[9 8 7 6 5 4 3 2 1 0]" {
			problems = append(problems, fmt.Sprintf("read-only partition 0..9, reverse subscription from the latest offset: delivered %v (%s), the requested range is 9 down to 0", got, end))
		}
		p.Close()
		cleanupStorage(t)
		// the same reverse subscription on a writable partition (control)
		p = lbvcRangePartition(t, 10)
		p.log.SetHighWatermark(9)
		got, end = lbvcRangeRun(p, &client.SubscribeRequest{StartPosition: client.StartPosition_LATEST, Reverse: true}, nil)
		if fmt.Sprint(got) != "[9 8 7 6 5 4 3 2 1 0]" {
			problems = append(problems, fmt.Sprintf("partition 0..9, reverse subscription from the latest offset: delivered %v (%s), the requested range is 9 down to 0", got, end))
		}
		p.Close()
		cleanupStorage(t)
	}
	if len(problems) > 0 {
		t.Fatalf("LBVC-REPRODUCED (obligation %s): %s", only, strings.Join(problems, "; "))
	}
}
