package encryption

// Replay scenarios for package encryption: the concrete input comes from the solver model
// (env LBVC_INPUT, JSON list of {name,type,value}); the real method is called under recover.

import (
	"strconv"
	"encoding/json"
	"fmt"
	"os"
	"strings"
	"testing"
)

type lbvcInput struct {
	Name  string          `json:"name"`
	Type  string          `json:"type"`
	Value json.RawMessage `json:"value"`
}

func lbvcBytes(t *testing.T, name string) ([]byte, bool) {
	var ins []lbvcInput
	if err := json.Unmarshal([]byte(os.Getenv("LBVC_INPUT")), &ins); err != nil {
		return nil, false
	}
	for _, in := range ins {
		if in.Name != name {
			continue
		}
		var xs []int
		if err := json.Unmarshal(in.Value, &xs); err != nil {
			return nil, false
		}
		out := make([]byte, len(xs))
		for i, x := range xs {
			out[i] = byte(x)
		}
		return out, true
	}
	return nil, false
}

func lbvcHandler(t *testing.T) *LocalEncryptionHandler {
	os.Setenv("LIFTBRIDGE_ENCRYPTION_KEY", "0123456789abcdef0123456789abcdef")
	h, err := NewLocalEncryptionHandler()
	if err != nil {
		t.Skipf("cannot build handler: %v", err)
	}
	return h
}

// every single-byte corruption of the stored form - the wrapped key next to the ciphertext included - and a value sealed
// under another master key must yield an error, whether the reader is the handler that sealed the value or a fresh one
func lbvcTamperSweep(t *testing.T) {
	sealer := lbvcHandler(t)
	reader := lbvcHandler(t)
	for _, n := range []int{0, 1, 16, 1000} {
		value := make([]byte, n)
		for i := range value {
			value[i] = byte(i*7 + 3)
		}
		sealed, err := sealer.Seal(value)
		if err != nil {
			t.Skipf("cannot seal: %v", err)
		}
		for who, h := range map[string]*LocalEncryptionHandler{"the handler that sealed it": sealer, "a fresh handler": reader} {
			if pt, err := h.Read(sealed); err != nil || string(pt) != string(value) {
				continue // (not this sweep's symptom)
			}
			accepted, first := 0, ""
			for pos := 0; pos < len(sealed); pos++ {
				for _, mask := range []byte{0x01, 0x80, 0xff} {
					bad := append([]byte{}, sealed...)
					bad[pos] ^= mask
					var pt []byte
					var err error
					func() {
						defer func() {
							if r := recover(); r != nil {
								err = os.ErrInvalid
							}
						}()
						pt, err = h.Read(bad)
					}()
					if err == nil {
						accepted++
						if first == "" {
							first = strings.TrimSpace(strings.Join([]string{"stored byte", itoa(pos), "of", itoa(len(sealed)), "xor", itoa(int(mask)), "was accepted and", itoa(len(pt)), "bytes returned"}, " "))
						}
					}
				}
			}
			if accepted > 0 {
				t.Fatalf("LBVC-REPRODUCED (obligation %s): a value of %d bytes read back by %s: %s (%d single-byte corruptions of the stored form are accepted)", os.Getenv("LBVC_OBLIGATION"), n, who, first, accepted)
			}
		}
	}
}

func itoa(n int) string { return strconv.Itoa(n) }

func TestLbvcScenarioRead(t *testing.T) {
	data, ok := lbvcBytes(t, "encryptedData")
	if !ok {
		lbvcTamperSweep(t)
		t.Skip("no model input")
	}
	defer lbvcTamperSweep(t)
	h := lbvcHandler(t)
	defer func() {
		if r := recover(); r != nil {
			t.Fatalf("LBVC-REPRODUCED: Read(% X) panics: %v", data, r)
		}
	}()
	pt, err := h.Read(data)
	if err == nil && len(data) < 1+12+16 {
		t.Fatalf("LBVC-REPRODUCED: Read(% X) returned data %q for an input too short to be a sealed value", data, pt)
	}
}

func TestLbvcScenarioDecryptData(t *testing.T) {
	data, ok := lbvcBytes(t, "encryptedData")
	if !ok {
		t.Skip("no model input")
	}
	dek, ok := lbvcBytes(t, "dek")
	if !ok || (len(dek) != 16 && len(dek) != 24 && len(dek) != 32) {
		dek = []byte("0123456789abcdef0123456789abcdef")
	}
	h := lbvcHandler(t)
	defer func() {
		if r := recover(); r != nil {
			t.Fatalf("LBVC-REPRODUCED: decryptData(% X) panics: %v", data, r)
		}
	}()
	pt, err := h.decryptData(dek, data)
	if err == nil && len(data) < 12+16 {
		t.Fatalf("LBVC-REPRODUCED: decryptData returned %q for an input shorter than nonce+tag", pt)
	}
}

// Property-level scenario (C17) for the obligations of Seal and unwrapDEK: what the handlers of one process seal and
// read, in the orders the server uses them. (a) several values sealed one after the other and only then read back -
// the partition's loop seals a whole batch before one Append - each reads back as itself; (b) a value sealed under one
// master key is refused by a handler built with another master key, also AFTER its owner has read it; (c) a sealed
// value with any single byte changed is refused.
func TestLbvcScenarioHandlers(t *testing.T) {
	keys := []string{"0123456789abcdef0123456789abcdef", "fedcba9876543210fedcba9876543210", "00112233445566778899aabbccddeeff"}
	var hs []*LocalEncryptionHandler
	for _, k := range keys {
		os.Setenv("LIFTBRIDGE_ENCRYPTION_KEY", k)
		h, err := NewLocalEncryptionHandler()
		if err != nil {
			t.Skipf("cannot build handler: %v", err)
		}
		hs = append(hs, h)
	}
	var problems []string
	add := func(format string, a ...interface{}) {
		if len(problems) < 4 {
			problems = append(problems, fmt.Sprintf(format, a...))
		}
	}
	// (a) a batch: equal lengths, then shorter, then longer
	values := []string{"value-of-message-0", "value-of-message-1", "short", "", "a considerably longer value than any of the earlier ones"}
	var sealed [][]byte
	for _, v := range values {
		s, err := hs[0].Seal([]byte(v))
		if err != nil {
			t.Skipf("Seal: %v", err)
		}
		sealed = append(sealed, s)
	}
	for i, s := range sealed {
		pt, err := hs[0].Read(s)
		if err != nil {
			add("message %d of a batch sealed before any was stored: published %q, reading it back fails: %v", i, values[i], err)
		} else if string(pt) != values[i] {
			add("message %d of a batch sealed before any was stored: published %q, read back %q", i, values[i], pt)
		}
	}
	// (b) other master keys, after the owner has read the value
	for i, h := range hs {
		s, err := h.Seal([]byte("the secret value"))
		if err != nil {
			continue
		}
		if pt, err := h.Read(s); err != nil || string(pt) != "the secret value" {
			add("a value sealed under master key %d is not returned by its own handler: %q, %v", i, pt, err)
		}
		for j, other := range hs {
			if j == i {
				continue
			}
			if pt, err := other.Read(s); err == nil {
				add("a value sealed under master key %d was returned (%q) by a handler with master key %d", i, pt, j)
			}
		}
	}
	// (c) tampering
	s, _ := hs[0].Seal([]byte("the secret value"))
	for i := range s {
		c := append([]byte{}, s...)
		c[i] ^= 0x01
		func() {
			defer func() {
				if r := recover(); r != nil {
					add("a sealed value with byte %d changed makes Read panic: %v", i, r)
				}
			}()
			if pt, err := hs[0].Read(c); err == nil {
				add("a sealed value with byte %d changed is returned as data %q", i, pt)
			}
		}()
	}
	if len(problems) > 0 {
		t.Fatalf("LBVC-REPRODUCED (obligation %s): %s", os.Getenv("LBVC_OBLIGATION"), strings.Join(problems, "; "))
	}
}
