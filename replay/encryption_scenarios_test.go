package encryption

// Replay scenarios for package encryption: the concrete input comes from the solver model
// (env LBVC_INPUT, JSON list of {name,type,value}); the real method is called under recover.

import (
	"encoding/json"
	"os"
	"testing"
)

type lbvcInput struct {
	Name  string          `json:"name"`
	Type  string          `json:"type"`
	Value json.RawMessage `json:"value"`
}

func lbvcBytes(t *testing.T, name string) ([]byte, bool) {
	var ins []lbvcInput
	if err := json.Unmarshal([]byte(os.Getenv("LBVC_INPUT")), &ins); err != nil {
		return nil, false
	}
	for _, in := range ins {
		if in.Name != name {
			continue
		}
		var xs []int
		if err := json.Unmarshal(in.Value, &xs); err != nil {
			return nil, false
		}
		out := make([]byte, len(xs))
		for i, x := range xs {
			out[i] = byte(x)
		}
		return out, true
	}
	return nil, false
}

func lbvcHandler(t *testing.T) *LocalEncryptionHandler {
	os.Setenv("LIFTBRIDGE_ENCRYPTION_KEY", "0123456789abcdef0123456789abcdef")
	h, err := NewLocalEncryptionHandler()
	if err != nil {
		t.Skipf("cannot build handler: %v", err)
	}
	return h
}

func TestLbvcScenarioRead(t *testing.T) {
	data, ok := lbvcBytes(t, "encryptedData")
	if !ok {
		t.Skip("no model input")
	}
	h := lbvcHandler(t)
	defer func() {
		if r := recover(); r != nil {
			t.Fatalf("LBVC-REPRODUCED: Read(% X) panics: %v", data, r)
		}
	}()
	pt, err := h.Read(data)
	if err == nil && len(data) < 1+12+16 {
		t.Fatalf("LBVC-REPRODUCED: Read(% X) returned data %q for an input too short to be a sealed value", data, pt)
	}
}

func TestLbvcScenarioDecryptData(t *testing.T) {
	data, ok := lbvcBytes(t, "encryptedData")
	if !ok {
		t.Skip("no model input")
	}
	dek, ok := lbvcBytes(t, "dek")
	if !ok || (len(dek) != 16 && len(dek) != 24 && len(dek) != 32) {
		dek = []byte("0123456789abcdef0123456789abcdef")
	}
	h := lbvcHandler(t)
	defer func() {
		if r := recover(); r != nil {
			t.Fatalf("LBVC-REPRODUCED: decryptData(% X) panics: %v", data, r)
		}
	}()
	pt, err := h.decryptData(dek, data)
	if err == nil && len(data) < 12+16 {
		t.Fatalf("LBVC-REPRODUCED: decryptData returned %q for an input shorter than nonce+tag", pt)
	}
}
