package server

// Replay scenario for the metadata state machine (property C06): a stream is made read-only and
// paused flags / leader / ISR are recorded; the server restarts once by log replay and once from a
// snapshot; the metadata and the flags applied to the partition log must be what they were.

import (
	"context"
	"fmt"
	"os"
	"strings"
	"testing"
	"time"

	lift "github.com/liftbridge-io/go-liftbridge/v2"
)

func lbvcPartitionState(s *Server, stream string) string {
	p := s.metadata.GetPartition(stream, 0)
	if p == nil {
		return "missing"
	}
	l, e := p.GetLeader()
	return fmt.Sprintf("readonly(meta)=%v readonly(log)=%v paused=%v leader=%s leaderEpoch=%d epoch=%d isr=%d",
		p.GetReadonly(), p.IsReadonly(), p.IsPaused(), l, e, p.GetEpoch(), len(p.GetISR()))
}

func TestLbvcScenarioRestart(t *testing.T) {
	defer cleanupStorage(t)
	cfg := getTestConfig("a", true, 5050)
	s1 := runServerWithConfig(t, cfg)
	getMetadataLeader(t, 10*time.Second, s1)
	client, err := lift.Connect([]string{"localhost:5050"})
	if err != nil {
		s1.Stop()
		t.Skipf("setup failed: %v", err)
	}
	ctx := context.Background()
	if err := client.CreateStream(ctx, "foo", "foo"); err != nil {
		s1.Stop()
		t.Skipf("setup failed: %v", err)
	}
	client.CreateStream(ctx, "gone", "gone")
	client.Publish(ctx, "foo", []byte("m0"), lift.AckPolicyLeader())
	client.SetStreamReadonly(ctx, "foo")
	client.DeleteStream(ctx, "gone")
	client.Close()
	want := lbvcPartitionState(s1, "foo")
	var problems []string
	check := func(how string) {
		waitForPartition(t, 10*time.Second, "foo", 0, s1)
		getMetadataLeader(t, 10*time.Second, s1)
		time.Sleep(300 * time.Millisecond)
		if got := lbvcPartitionState(s1, "foo"); got != want {
			problems = append(problems, fmt.Sprintf("after restart by %s: state %q, before the restart %q", how, got, want))
		}
		if s1.metadata.GetStream("gone") != nil {
			problems = append(problems, "after restart by "+how+": a deleted stream is back")
		}
		if p := s1.metadata.GetPartition("foo", 0); p != nil && p.log.NewestOffset() != 0 {
			problems = append(problems, fmt.Sprintf("after restart by %s: newest offset %d, expected 0 (stream data lost or changed)", how, p.log.NewestOffset()))
		}
	}
	s1.Stop()
	s1 = runServerWithConfig(t, s1.config)
	check("log replay")
	if err := s1.getRaft().Snapshot().Error(); err == nil {
		s1.Stop()
		s1 = runServerWithConfig(t, s1.config)
		check("snapshot restore")
	}
	s1.Stop()
	if len(problems) > 0 {
		t.Fatalf("LBVC-REPRODUCED (obligation %s): %s", os.Getenv("LBVC_OBLIGATION"), strings.Join(problems, "; "))
	}
}
