package server

// Replay scenario for the metadata state machine (property C06): a stream is made read-only and
// paused flags / leader / ISR are recorded; the server restarts once by log replay and once from a
// snapshot; the metadata and the flags applied to the partition log must be what they were.

import (
	"context"
	"fmt"
	"os"
	"strings"
	"testing"
	"time"

	lift "github.com/liftbridge-io/go-liftbridge/v2"
)

func lbvcPartitionState(s *Server, stream string) string {
	p := s.metadata.GetPartition(stream, 0)
	if p == nil {
		return "missing"
	}
	l, e := p.GetLeader()
	return fmt.Sprintf("readonly(meta)=%v readonly(log)=%v paused=%v leader=%s leaderEpoch=%d epoch=%d isr=%d",
		p.GetReadonly(), p.IsReadonly(), p.IsPaused(), l, e, p.GetEpoch(), len(p.GetISR()))
}

func TestLbvcScenarioRestart(t *testing.T) {
	defer cleanupStorage(t)
	cfg := getTestConfig("a", true, 5050)
	s1 := runServerWithConfig(t, cfg)
	getMetadataLeader(t, 10*time.Second, s1)
	client, err := lift.Connect([]string{"localhost:5050"})
	if err != nil {
		s1.Stop()
		t.Skipf("setup failed: %v", err)
	}
	ctx := context.Background()
	if err := client.CreateStream(ctx, "foo", "foo"); err != nil {
		s1.Stop()
		t.Skipf("setup failed: %v", err)
	}
	client.CreateStream(ctx, "gone", "gone")
	// a stream that is paused and then resumed (by a publish): it is NOT paused when the server restarts
	client.CreateStream(ctx, "resumed", "resumed")
	client.Publish(ctx, "resumed", []byte("r0"), lift.AckPolicyLeader())
	client.PauseStream(ctx, "resumed", lift.ResumeAll())
	for i := 0; i < 50; i++ {
		if p := s1.metadata.GetPartition("resumed", 0); p != nil && p.IsPaused() {
			break
		}
		time.Sleep(50 * time.Millisecond)
	}
	client.Publish(ctx, "resumed", []byte("r1"), lift.AckPolicyLeader())
	client.Publish(ctx, "foo", []byte("m0"), lift.AckPolicyLeader())
	client.SetStreamReadonly(ctx, "foo")
	client.DeleteStream(ctx, "gone")
	client.Close()
	want := lbvcPartitionState(s1, "foo")
	wantResumed := lbvcPartitionState(s1, "resumed")
	var problems []string
	check := func(how string) {
		waitForPartition(t, 10*time.Second, "foo", 0, s1)
		getMetadataLeader(t, 10*time.Second, s1)
		time.Sleep(300 * time.Millisecond)
		if got := lbvcPartitionState(s1, "foo"); got != want {
			problems = append(problems, fmt.Sprintf("after restart by %s: state %q, before the restart %q", how, got, want))
		}
		if !strings.Contains(wantResumed, "paused=true") {
			waitForPartition(t, 10*time.Second, "resumed", 0, s1)
			time.Sleep(200 * time.Millisecond)
			if got := lbvcPartitionState(s1, "resumed"); got != wantResumed {
				problems = append(problems, fmt.Sprintf("after restart by %s: the stream that was paused and resumed before the restart is in state %q, before the restart %q", how, got, wantResumed))
			}
		}
		// a restarted server serves its streams again: the partition it leads accepts a publish (reported only for
		// the obligations about Restore / the end of recovery)
		obl := os.Getenv("LBVC_OBLIGATION")
		if c2, err := lift.Connect([]string{"localhost:5050"}); err == nil && (obl == "" || strings.Contains(obl, "Restore") || strings.Contains(obl, "finishedRecovery") || strings.Contains(obl, "StartRecovered")) {
			pctx, pcancel := context.WithTimeout(context.Background(), 5*time.Second)
			if _, err := c2.Publish(pctx, "resumed", []byte("after-"+how), lift.AckPolicyLeader()); err != nil {
				problems = append(problems, fmt.Sprintf("after restart by %s: publishing to a stream this server leads fails: %v (the partition was never started)", how, err))
			}
			pcancel()
			c2.Close()
		}
		if s1.metadata.GetStream("gone") != nil {
			problems = append(problems, "after restart by "+how+": a deleted stream is back")
		}
		if p := s1.metadata.GetPartition("foo", 0); p != nil && p.log.NewestOffset() != 0 {
			problems = append(problems, fmt.Sprintf("after restart by %s: newest offset %d, expected 0 (stream data lost or changed)", how, p.log.NewestOffset()))
		}
	}
	s1.Stop()
	s1 = runServerWithConfig(t, s1.config)
	check("log replay")
	if err := s1.getRaft().Snapshot().Error(); err == nil {
		s1.Stop()
		s1 = runServerWithConfig(t, s1.config)
		check("snapshot restore")
	}
	s1.Stop()
	if len(problems) > 0 {
		t.Fatalf("LBVC-REPRODUCED (obligation %s): %s", os.Getenv("LBVC_OBLIGATION"), strings.Join(problems, "; "))
	}
}
