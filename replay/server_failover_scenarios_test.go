package server

// Replay scenario for the leader fail-over obligations (property C07): a 4-replica partition
// (ISR {a,b,c}, leader b) on a single-node controller. Leader reports are fed to the real
// metadata.ReportLeader; the leader may change only after more than half of the in-sync FOLLOWERS
// reported the CURRENT leader, and the new leader must be an in-sync replica other than the old one.

import (
	"context"
	"fmt"
	"os"
	"strings"
	"testing"
	"time"

	proto "github.com/liftbridge-io/liftbridge/server/protocol"
)

func TestLbvcScenarioFailover(t *testing.T) {
	defer cleanupStorage(t)
	cfg := getTestConfig("a", true, 5050)
	cfg.Clustering.ReplicaMaxLeaderTimeout = 5 * time.Second
	s1 := runServerWithConfig(t, cfg)
	defer s1.Stop()
	getMetadataLeader(t, 10*time.Second, s1)
	op := &proto.RaftLog{Op: proto.Op_CREATE_STREAM, CreateStreamOp: &proto.CreateStreamOp{Stream: &proto.Stream{
		Name: "bar", Subject: "bar", Partitions: []*proto.Partition{{Stream: "bar", Subject: "bar", Id: 0, ReplicationFactor: 3,
			Replicas: []string{"a", "b", "c", "d"}, Isr: []string{"a", "b", "c"}, Leader: "b"}}}}}
	fut, err := s1.getRaft().applyOperation(context.Background(), op, nil)
	if err != nil || fut.Error() != nil {
		t.Skipf("setup failed: %v %v", err, fut)
	}
	bp := s1.metadata.GetPartition("bar", 0)
	if bp == nil {
		t.Skip("no partition")
	}
	var problems []string
	rep := func(who, leader string, epoch uint64) (string, uint64) {
		s1.metadata.ReportLeader(context.Background(), &proto.ReportLeaderOp{Stream: "bar", Partition: 0, Replica: who, Leader: leader, LeaderEpoch: epoch})
		return bp.GetLeader()
	}
	l0, e0 := bp.GetLeader()
	// reports by a replica outside the ISR and by an unknown id are not in-sync followers
	rep("d", l0, e0)
	l, e := rep("zzz-not-a-replica", l0, e0)
	if l != l0 || e != e0 {
		problems = append(problems, fmt.Sprintf("leader changed (%s,%d)->(%s,%d) although no in-sync follower reported it", l0, e0, l, e))
	}
	// a stale report must be refused
	l, e = rep("a", "not-the-leader", e0)
	if l != l0 {
		problems = append(problems, "a report naming a stale leader changed the leader")
	}
	// quorum: ISR {a,b,c}, followers {a,c}: more than half of 2 followers = both
	l, e = bp.GetLeader()
	if l == l0 {
		l1, e1 := rep("a", l0, e0)
		if l1 != l0 {
			problems = append(problems, "one of two in-sync followers was enough to depose the leader")
		}
		l1, e1 = rep("c", l0, e0)
		if l1 == l0 {
			problems = append(problems, "both in-sync followers reported the leader but no fail-over happened")
		} else {
			if l1 != "a" && l1 != "c" {
				problems = append(problems, "new leader "+l1+" is not an in-sync follower")
			}
			if e1 <= e0 {
				problems = append(problems, "leader epoch did not increase")
			}
		}
	}
	// after the fail-over a single report against the NEW leader must not depose it
	l2, e2 := bp.GetLeader()
	if l2 != l0 {
		reporter := "a"
		if l2 == "a" {
			reporter = "c"
		}
		l3, _ := rep(reporter, l2, e2)
		if l3 != l2 {
			problems = append(problems, fmt.Sprintf("after the fail-over to %s one single report deposed the new leader (stale witnesses)", l2))
		}
	}
	if len(problems) > 0 {
		t.Fatalf("LBVC-REPRODUCED (obligation %s): %s", os.Getenv("LBVC_OBLIGATION"), strings.Join(problems, "; "))
	}
}

// Witnesses of a leader failure must be in-sync followers of the CURRENT leader when they are counted: a witness
// that was dropped from the in-sync set, or that reported the previous leader while its replacement was in flight,
// does not count. Single-node controller a; partition bar/0 with replicas l w x y z (none of them is a real server).
func TestLbvcScenarioWitnesses(t *testing.T) {
	obl := os.Getenv("LBVC_OBLIGATION")
	var problems []string
	setup := func(isr []string) (*Server, *partition) {
		cleanupStorage(t)
		cfg := getTestConfig("a", true, 5050)
		cfg.Clustering.ReplicaMaxLeaderTimeout = 10 * time.Second
		s1 := runServerWithConfig(t, cfg)
		getMetadataLeader(t, 10*time.Second, s1)
		op := &proto.RaftLog{Op: proto.Op_CREATE_STREAM, CreateStreamOp: &proto.CreateStreamOp{Stream: &proto.Stream{
			Name: "bar", Subject: "bar", Partitions: []*proto.Partition{{Stream: "bar", Subject: "bar", Id: 0, ReplicationFactor: 5,
				Replicas: []string{"l", "w", "x", "y", "z"}, Isr: isr, Leader: "l"}}}}}
		fut, err := s1.getRaft().applyOperation(context.Background(), op, nil)
		if err != nil || fut.Error() != nil {
			s1.Stop()
			return nil, nil
		}
		return s1, s1.metadata.GetPartition("bar", 0)
	}
	ctx := context.Background()
	if obl == "" || strings.Contains(obl, "RemoveFromISR") || strings.Contains(obl, "forget") {
		if s1, bp := setup([]string{"l", "w", "x", "y", "z"}); bp != nil {
			l0, e0 := bp.GetLeader()
			rep := func(who string) {
				l, e := bp.GetLeader()
				s1.metadata.ReportLeader(ctx, &proto.ReportLeaderOp{Stream: "bar", Partition: 0, Replica: who, Leader: l, LeaderEpoch: e})
			}
			rep("w")
			rep("x")
			for _, r := range []string{"w", "x"} {
				s1.metadata.ShrinkISR(ctx, &proto.ShrinkISROp{Stream: "bar", Partition: 0, ReplicaToRemove: r, Leader: l0, LeaderEpoch: e0})
			}
			rep("y")
			if l1, e1 := bp.GetLeader(); l1 != l0 {
				problems = append(problems, fmt.Sprintf("in-sync set {l w x y z}: w and x report the leader, the leader drops both from the in-sync set (now %v), then ONE of the two remaining in-sync followers reports: leader %s epoch %d replaced by %s epoch %d", bp.GetISR(), l0, e0, l1, e1))
			}
			s1.Stop()
		}
	}
	if obl == "" || strings.Contains(obl, "ChangeLeader") {
		if s1, bp := setup([]string{"l", "w", "x"}); bp != nil {
			l0, e0 := bp.GetLeader()
			fired := false
			verifHook = func(name string) {
				if name != "electNewPartitionLeader:candidate-selected" || fired {
					return
				}
				fired = true
				// the periodic repeat of a report about the leader that is being replaced
				s1.metadata.ReportLeader(ctx, &proto.ReportLeaderOp{Stream: "bar", Partition: 0, Replica: "w", Leader: l0, LeaderEpoch: e0})
			}
			s1.metadata.ReportLeader(ctx, &proto.ReportLeaderOp{Stream: "bar", Partition: 0, Replica: "w", Leader: l0, LeaderEpoch: e0})
			s1.metadata.ReportLeader(ctx, &proto.ReportLeaderOp{Stream: "bar", Partition: 0, Replica: "x", Leader: l0, LeaderEpoch: e0})
			verifHook = nil
			l1, e1 := bp.GetLeader()
			if fired && l1 != l0 {
				// one single report about the NEW leader, by an in-sync follower of it
				who := "l"
				s1.metadata.ReportLeader(ctx, &proto.ReportLeaderOp{Stream: "bar", Partition: 0, Replica: who, Leader: l1, LeaderEpoch: e1})
				if l2, e2 := bp.GetLeader(); l2 != l1 {
					problems = append(problems, fmt.Sprintf("in-sync set {l w x}: the fail-over l -> %s (epoch %d) was in flight when w repeated its report about l; afterwards ONE report about %s (by %s, one of its two in-sync followers) replaced it by %s (epoch %d)", l1, e1, l1, who, l2, e2))
				}
			}
			s1.Stop()
		}
	}
	cleanupStorage(t)
	if len(problems) > 0 {
		t.Fatalf("LBVC-REPRODUCED (obligation %s): %s", obl, strings.Join(problems, "; "))
	}
}
