package server

// Replay scenario for the follower side of replication (property C14): a replication response is an envelope like any
// other; whatever bytes follow its leader epoch and high watermark, the follower that receives it must not crash or
// hang. Payloads: a well-formed message set, every prefix of it, sets whose size field is wrong in either direction
// (too large, negative, and -28, which makes a walk that trusts it stand still), and trailing garbage.

import (
	"bytes"
	"context"
	"encoding/binary"
	"fmt"
	"os"
	"strings"
	"testing"
	"time"

	nats "github.com/nats-io/nats.go"

	proto "github.com/liftbridge-io/liftbridge/server/protocol"
)

func lbvcReplResponse(epoch uint64, hw int64, set []byte) []byte {
	var buf bytes.Buffer
	proto.WriteReplicationResponseHeader(&buf)
	var b [16]byte
	binary.BigEndian.PutUint64(b[:8], epoch)
	binary.BigEndian.PutUint64(b[8:], uint64(hw))
	buf.Write(b[:])
	buf.Write(set)
	return buf.Bytes()
}

// one stored message: 28 bytes of header (offset, timestamp, leader epoch, size) followed by size bytes
func lbvcFramed(offset int64, epoch uint64, size int32, body []byte) []byte {
	h := make([]byte, 28)
	binary.BigEndian.PutUint64(h[0:], uint64(offset))
	binary.BigEndian.PutUint64(h[8:], uint64(time.Now().UnixNano()))
	binary.BigEndian.PutUint64(h[16:], epoch)
	binary.BigEndian.PutUint32(h[24:], uint32(size))
	return append(h, body...)
}

func TestLbvcScenarioReplicationResponse(t *testing.T) {
	defer cleanupStorage(t)
	cfg := getTestConfig("a", true, 5050)
	s1 := runServerWithConfig(t, cfg)
	getMetadataLeader(t, 10*time.Second, s1)
	// a partition led by another server: this one follows
	op := &proto.RaftLog{Op: proto.Op_CREATE_STREAM, CreateStreamOp: &proto.CreateStreamOp{Stream: &proto.Stream{
		Name: "foo", Subject: "foo", Partitions: []*proto.Partition{{Stream: "foo", Subject: "foo", Id: 0, ReplicationFactor: 2,
			Replicas: []string{"a", "b"}, Isr: []string{"a", "b"}, Leader: "b"}}}}}
	fut, err := s1.getRaft().applyOperation(context.Background(), op, nil)
	if err != nil || fut.Error() != nil {
		s1.Stop()
		t.Skipf("setup failed: %v", err)
	}
	waitForPartition(t, 5*time.Second, "foo", 0, s1)
	p := s1.metadata.GetPartition("foo", 0)
	deadline := time.Now().Add(5 * time.Second)
	for {
		p.mu.RLock()
		f := p.isFollowing
		p.mu.RUnlock()
		if f || time.Now().After(deadline) {
			break
		}
		time.Sleep(20 * time.Millisecond)
	}
	_, epoch := p.GetLeader()
	body := []byte("0123456789abcdef")
	type payload struct {
		what string
		set  []byte
	}
	var payloads []payload
	good := lbvcFramed(0, epoch, int32(len(body)), body)
	for cut := 29; cut < len(good); cut++ {
		payloads = append(payloads, payload{fmt.Sprintf("a message set cut after %d of %d bytes", cut, len(good)), append([]byte{}, good[:cut]...)})
	}
	payloads = append(payloads,
		payload{"a size field larger than what follows", lbvcFramed(0, epoch, 1000, body)},
		payload{"a negative size field", lbvcFramed(0, epoch, -5, body)},
		payload{"a complete message followed by 5 stray bytes", append(lbvcFramed(0, epoch, int32(len(body)), body), 1, 2, 3, 4, 5)},
		payload{"a size field of -28 (a walk that trusts it never advances)", lbvcFramed(0, epoch, -28, body)},
	)
	var problems []string
	for _, pl := range payloads {
		done := make(chan string, 1)
		go func() {
			defer func() {
				if r := recover(); r != nil {
					done <- fmt.Sprintf("a replication response carrying %s crashes the follower: %v", pl.what, r)
					return
				}
				done <- ""
			}()
			p.handleReplicationResponse(&nats.Msg{Subject: "x", Data: lbvcReplResponse(epoch, -1, pl.set)})
		}()
		select {
		case r := <-done:
			if r != "" {
				problems = append(problems, r)
			}
		case <-time.After(10 * time.Second):
			problems = append(problems, fmt.Sprintf("a replication response carrying %s hangs the follower's replication loop (no return within 10 s, memory growing)", pl.what))
			// the walk allocates without bound: stop here
			fmt.Printf("--- FAIL: LBVC-REPRODUCED (obligation %s): %s\n", os.Getenv("LBVC_OBLIGATION"), strings.Join(problems, "; "))
			os.Exit(1)
		}
	}
	if len(problems) > 0 {
		if len(problems) > 4 {
			problems = append(problems[:4], fmt.Sprintf("... and %d more", len(problems)-4))
		}
		// a handler that panicked may hold a lock: do not try to stop the server
		fmt.Printf("--- FAIL: LBVC-REPRODUCED (obligation %s): %s\n", os.Getenv("LBVC_OBLIGATION"), strings.Join(problems, "; "))
		os.Exit(1)
	}
	s1.Stop()
}
