package server

// Replay scenario for the authorisation obligations (property C15): a single-node server with
// authorisation switched on; a client without any policy entry ("mallory") calls every API
// handler; each call must be refused and must have no effect. The obligation that failed
// (env LBVC_OBLIGATION) selects which handler is exercised first; all handlers are checked.

import (
	"context"
	"fmt"
	"os"
	"strings"
	"testing"
	"time"

	"github.com/casbin/casbin/v2"
	client "github.com/liftbridge-io/liftbridge-api/v2/go"
	"google.golang.org/grpc"
)

type lbvcSubStream struct {
	grpc.ServerStream
	ctx  context.Context
	sent int
}

func (s *lbvcSubStream) Context() context.Context     { return s.ctx }
func (s *lbvcSubStream) Send(m *client.Message) error { s.sent++; return nil }

type lbvcPubStream struct {
	grpc.ServerStream
	ctx   context.Context
	reqs  []*client.PublishRequest
	resps []*client.PublishResponse
}

func (s *lbvcPubStream) Context() context.Context { return s.ctx }
func (s *lbvcPubStream) Send(r *client.PublishResponse) error {
	s.resps = append(s.resps, r)
	return nil
}
func (s *lbvcPubStream) Recv() (*client.PublishRequest, error) {
	if len(s.reqs) == 0 {
		time.Sleep(300 * time.Millisecond)
		return nil, fmt.Errorf("client gone")
	}
	r := s.reqs[0]
	s.reqs = s.reqs[1:]
	return r, nil
}

func TestLbvcScenarioAuthz(t *testing.T) {
	defer cleanupStorage(t)
	cfg := getTestConfig("a", true, 5050)
	cfg.CursorsStream.Partitions = 1
	s1 := runServerWithConfig(t, cfg)
	defer s1.Stop()
	getMetadataLeader(t, 10*time.Second, s1)
	_, err := s1.api.CreateStream(context.Background(), &client.CreateStreamRequest{Name: "foo", Subject: "foo"})
	if err != nil {
		t.Skipf("setup failed: %v", err)
	}
	enf, err := casbin.NewEnforcer("./configs/authz/model.conf", "./configs/authz/policy.csv")
	if err != nil {
		t.Skipf("setup failed: %v", err)
	}
	s1.authzEnforcer = &authzEnforcer{enforcer: enf}
	s1.config.TLSClientAuthz = true
	good := context.WithValue(context.Background(), "clientID", "client1")
	evil := context.WithValue(context.Background(), "clientID", "mallory")
	var problems []string
	report := func(f string, a ...interface{}) { problems = append(problems, fmt.Sprintf(f, a...)) }
	p := s1.metadata.GetPartition("foo", 0)
	waitForPartition := func() {
		for i := 0; i < 100 && (p == nil || !p.IsLeader()); i++ {
			time.Sleep(50 * time.Millisecond)
			p = s1.metadata.GetPartition("foo", 0)
		}
	}
	waitForPartition()
	if p == nil {
		t.Skip("partition not available")
	}

	// Subscribe: a legitimate group member is subscribed; the denied call must not disturb it
	legit, st := p.Subscribe(good, &client.SubscribeRequest{Stream: "foo", StartPosition: client.StartPosition_NEW_ONLY,
		Consumer: &client.Consumer{GroupId: "g", ConsumerId: "good", GroupEpoch: 1}})
	if st != nil {
		t.Skipf("setup failed: %v", st.Err())
	}
	ectx, cancel := context.WithTimeout(evil, time.Second)
	ss := &lbvcSubStream{ctx: ectx}
	err = s1.api.Subscribe(&client.SubscribeRequest{Stream: "foo", StartPosition: client.StartPosition_NEW_ONLY,
		Consumer: &client.Consumer{GroupId: "g", ConsumerId: "mallory", GroupEpoch: 1}}, ss)
	cancel()
	if err == nil {
		report("Subscribe by an unauthorised client was accepted")
	}
	if ss.sent > 0 {
		report("Subscribe by an unauthorised client was sent %d messages", ss.sent)
	}
	select {
	case <-legit.Closed():
		report("Subscribe by an unauthorised client cancelled the legitimate group member's subscription")
	default:
	}
	legit.Close()

	// PublishAsync
	before := p.log.NewestOffset()
	ps := &lbvcPubStream{ctx: evil, reqs: []*client.PublishRequest{{Stream: "foo", Value: []byte("evil"), AckPolicy: client.AckPolicy_LEADER, CorrelationId: "x"}}}
	s1.api.PublishAsync(ps)
	time.Sleep(400 * time.Millisecond)
	if after := p.log.NewestOffset(); after != before {
		report("PublishAsync by an unauthorised client stored a message (newest offset %d -> %d)", before, after)
	}
	// Publish
	before = p.log.NewestOffset()
	pctx, pcancel := context.WithTimeout(evil, time.Second)
	_, err = s1.api.Publish(pctx, &client.PublishRequest{Stream: "foo", Value: []byte("evil"), AckPolicy: client.AckPolicy_LEADER})
	pcancel()
	time.Sleep(200 * time.Millisecond)
	if err == nil {
		report("Publish by an unauthorised client was accepted")
	}
	if after := p.log.NewestOffset(); after != before {
		report("Publish by an unauthorised client stored a message")
	}
	// PublishToSubject
	before = p.log.NewestOffset()
	pctx, pcancel = context.WithTimeout(evil, time.Second)
	_, err = s1.api.PublishToSubject(pctx, &client.PublishToSubjectRequest{Subject: "foo", Value: []byte("evil")})
	pcancel()
	time.Sleep(200 * time.Millisecond)
	if err == nil {
		report("PublishToSubject by an unauthorised client was accepted")
	}
	if after := p.log.NewestOffset(); after != before {
		report("PublishToSubject by an unauthorised client stored a message")
	}
	// cursors
	if _, err = s1.api.SetCursor(evil, &client.SetCursorRequest{Stream: "foo", Partition: 0, CursorId: "c", Offset: 7}); err == nil {
		report("SetCursor by an unauthorised client was accepted")
	}
	if _, err = s1.api.FetchCursor(evil, &client.FetchCursorRequest{Stream: "foo", Partition: 0, CursorId: "c"}); err == nil {
		report("FetchCursor by an unauthorised client was accepted")
	}
	// metadata
	if _, err = s1.api.FetchMetadata(evil, &client.FetchMetadataRequest{}); err == nil {
		report("FetchMetadata by an unauthorised client was accepted")
	}
	if _, err = s1.api.FetchPartitionMetadata(evil, &client.FetchPartitionMetadataRequest{Stream: "foo", Partition: 0}); err == nil {
		report("FetchPartitionMetadata by an unauthorised client was accepted")
	}
	// stream administration
	if _, err = s1.api.SetStreamReadonly(evil, &client.SetStreamReadonlyRequest{Name: "foo", Readonly: true}); err == nil {
		report("SetStreamReadonly by an unauthorised client was accepted")
	}
	if pp := s1.metadata.GetPartition("foo", 0); pp != nil && pp.GetReadonly() {
		report("SetStreamReadonly by an unauthorised client made the stream read-only")
	}
	if _, err = s1.api.PauseStream(evil, &client.PauseStreamRequest{Name: "foo"}); err == nil {
		report("PauseStream by an unauthorised client was accepted")
	}
	if pp := s1.metadata.GetPartition("foo", 0); pp != nil && pp.GetPaused() {
		report("PauseStream by an unauthorised client paused the stream")
	}
	if _, err = s1.api.CreateStream(evil, &client.CreateStreamRequest{Name: "evil", Subject: "evil"}); err == nil {
		report("CreateStream by an unauthorised client was accepted")
	}
	if s1.metadata.GetStream("evil") != nil {
		report("CreateStream by an unauthorised client created a stream")
	}
	if _, err = s1.api.DeleteStream(evil, &client.DeleteStreamRequest{Name: "foo"}); err == nil {
		report("DeleteStream by an unauthorised client was accepted")
	}
	if s1.metadata.GetStream("foo") == nil {
		report("DeleteStream by an unauthorised client deleted the stream")
	}
	// only the symptoms of the handler the failed obligation belongs to count (all of them for the
	// shared helpers ensureAuthorizationPermission / enforcePolicy)
	obl := os.Getenv("LBVC_OBLIGATION")
	handler := ""
	for _, h := range []string{"CreateStream", "DeleteStream", "PauseStream", "SetStreamReadonly", "Subscribe", "FetchMetadata",
		"FetchPartitionMetadata", "PublishToSubject", "Publish", "SetCursor", "FetchCursor"} {
		if strings.Contains(obl, "(*apiServer)."+h+"#") {
			handler = h
			break
		}
	}
	if strings.Contains(obl, "publishLoop#") {
		handler = "PublishAsync"
	}
	var relevant []string
	for _, pr := range problems {
		if handler == "" || strings.HasPrefix(pr, handler+" ") {
			relevant = append(relevant, pr)
		}
	}
	if len(relevant) > 0 {
		t.Fatalf("LBVC-REPRODUCED (obligation %s): %s", obl, strings.Join(relevant, "; "))
	}
	if len(problems) > 0 {
		t.Logf("other symptoms (not attributed to this obligation): %s", strings.Join(problems, "; "))
	}
}

// The authorisation switch is what the configuration file says under its own key.
func TestLbvcScenarioAuthzSwitch(t *testing.T) {
	var problems []string
	for _, c := range []struct{ auth, authz string }{{"", "true"}, {"false", "true"}, {"true", "false"}, {"true", "true"}, {"false", "false"}} {
		dir, err := os.MkdirTemp("", "lbvc-cfg-")
		if err != nil {
			t.Skip(err)
		}
		content := "tls:\n"
		if c.auth != "" {
			content += "  client.auth.enabled: " + c.auth + "\n"
		}
		content += "  client.authz.enabled: " + c.authz + "\n"
		file := dir + "/liftbridge.yaml"
		os.WriteFile(file, []byte(content), 0o644)
		cfg, err := NewConfig(file)
		os.RemoveAll(dir)
		if err != nil {
			continue
		}
		if want := c.authz == "true"; cfg.TLSClientAuthz != want {
			problems = append(problems, fmt.Sprintf("configuration file with tls.client.auth.enabled=%q and tls.client.authz.enabled=%q: client authorisation is %v", c.auth, c.authz, cfg.TLSClientAuthz))
		}
	}
	if len(problems) > 0 {
		t.Fatalf("LBVC-REPRODUCED (obligation %s): %s", os.Getenv("LBVC_OBLIGATION"), strings.Join(problems, "; "))
	}
}
