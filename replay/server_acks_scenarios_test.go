package server

// Replay scenario for the acknowledgement obligations (property C04) of the leader's receive loop, processPendingMessage
// and the commit loop: the REAL loops of a partition are fed batches that mix the three ack policies, at replication
// factor 1 (the fast path that skips the commit queue) and with a commit queue in use. Oracle, from the property: the
// NONE policy never produces an acknowledgement; every other message gets exactly one, carrying its own correlation id
// and policy and the offset at which exactly that message is stored.

import (
	"context"
	"fmt"
	"os"
	"strings"
	"sync"
	"testing"
	"time"

	"github.com/Workiva/go-datastructures/queue"
	client "github.com/liftbridge-io/liftbridge-api/v2/go"
	nats "github.com/nats-io/nats.go"

	proto "github.com/liftbridge-io/liftbridge/server/protocol"
)

func TestLbvcScenarioAckPolicies(t *testing.T) {
	defer cleanupStorage(t)
	server := createServer()
	if err := server.Start(); err != nil {
		t.Skip(err)
	}
	defer server.Stop()
	nc, err := nats.GetDefaultOptions().Connect()
	if err != nil {
		t.Skip(err)
	}
	defer nc.Close()
	var problems []string
	N, L, A := client.AckPolicy_NONE, client.AckPolicy_LEADER, client.AckPolicy_ALL
	batches := [][]client.AckPolicy{{N, L, A}, {L, N, N, A, L}, {N, N, L}, {A, N, L, N}, {N}, {L, A}}
	for bi, batch := range batches {
		stream := fmt.Sprintf("foo%d", bi)
		p, err := server.newPartition(&proto.Partition{Subject: stream, Stream: stream, ReplicationFactor: 1, Replicas: []string{"a"}, Leader: "a", Isr: []string{"a"}}, false, nil)
		if err != nil {
			t.Skip(err)
		}
		p.commitQueue = queue.New(16)
		inbox := fmt.Sprintf("lbvc.acks.%d", bi)
		sub, err := nc.SubscribeSync(inbox)
		if err != nil {
			t.Skip(err)
		}
		nc.Flush()
		recv := make(chan *nats.Msg, len(batch))
		want := 0
		for i, pol := range batch {
			data, err := proto.MarshalPublish(&client.Message{Value: []byte(fmt.Sprintf("value of m%d", i)), Stream: stream, Subject: stream,
				AckInbox: inbox, CorrelationId: fmt.Sprintf("m%d", i), AckPolicy: pol})
			if err != nil {
				t.Skip(err)
			}
			recv <- &nats.Msg{Subject: stream, Data: data}
			if pol != N {
				want++
			}
		}
		stop := make(chan struct{})
		var wg sync.WaitGroup
		wg.Add(2)
		go func() { defer wg.Done(); p.messageProcessingLoop(recv, stop, 1) }()
		go func() { defer wg.Done(); p.commitLoop(stop) }()
		desc := fmt.Sprintf("one batch with the ack policies %v at replication factor 1", batch)
		got := map[string]*client.Ack{}
		deadline := time.Now().Add(10 * time.Second)
		for {
			wait := 700 * time.Millisecond // after the expected acks: is there one too many?
			if len(got) < want {
				wait = time.Until(deadline)
			}
			m, err := sub.NextMsg(wait)
			if err != nil {
				break
			}
			ack, err := proto.UnmarshalAck(m.Data)
			if err != nil {
				continue
			}
			if _, dup := got[ack.CorrelationId]; dup {
				problems = append(problems, fmt.Sprintf("%s: message %s is acknowledged twice", desc, ack.CorrelationId))
			}
			got[ack.CorrelationId] = ack
		}
		for i, pol := range batch {
			cid := fmt.Sprintf("m%d", i)
			ack := got[cid]
			switch {
			case pol == N && ack != nil:
				problems = append(problems, fmt.Sprintf("%s: message %d, published with the NONE policy, was acknowledged (offset %d, policy %v)", desc, i, ack.Offset, ack.AckPolicy))
			case pol != N && ack == nil:
				problems = append(problems, fmt.Sprintf("%s: message %d (%v) was never acknowledged", desc, i, pol))
			case pol != N:
				if ack.AckError != client.Ack_OK || ack.AckPolicy != pol {
					problems = append(problems, fmt.Sprintf("%s: the acknowledgement of message %d (%v) has policy %v, error %v", desc, i, pol, ack.AckPolicy, ack.AckError))
				}
				if v := lbvcValueAt(p, ack.Offset); v != "value of "+cid {
					problems = append(problems, fmt.Sprintf("%s: the acknowledgement of message %d carries offset %d, where %q is stored", desc, i, ack.Offset, v))
				}
			}
		}
		close(stop)
		wg.Wait()
		sub.Unsubscribe()
		p.Close()
	}
	if len(problems) > 0 {
		if len(problems) > 4 {
			problems = append(problems[:4], fmt.Sprintf("... and %d more", len(problems)-4))
		}
		t.Fatalf("LBVC-REPRODUCED (obligation %s): %s", os.Getenv("LBVC_OBLIGATION"), strings.Join(problems, "; "))
	}
}

func lbvcValueAt(p *partition, offset int64) string {
	reader, err := p.log.NewReader(offset, true)
	if err != nil {
		return "(no reader: " + err.Error() + ")"
	}
	ctx, cancel := context.WithTimeout(context.Background(), 5*time.Second)
	defer cancel()
	msg, got, _, _, err := reader.ReadMessage(ctx, make([]byte, 28))
	if err != nil || got != offset {
		return fmt.Sprintf("(offset %d, error %v)", got, err)
	}
	return string(msg.Value())
}
