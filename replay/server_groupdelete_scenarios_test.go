package server

// Replay scenario for the obligation that a stream deletion reaches the consumer groups as part of applying the
// operation (properties C12, C06): the notification runs on a goroutine of its own; the scheduling hook holds that
// goroutine while one more group operation is committed and applied, then releases it. After everything has run,
// no member of the group may hold partitions of the deleted stream, and the group must be in the state every
// server that applied the same two operations in commit order is in.

import (
	"context"
	"fmt"
	"os"
	"strings"
	"testing"
	"time"

	client "github.com/liftbridge-io/liftbridge-api/v2/go"
)

func TestLbvcScenarioStreamDeletedReachesGroups(t *testing.T) {
	defer cleanupStorage(t)
	cfg := getTestConfig("a", true, 5050)
	s1 := runServerWithConfig(t, cfg)
	defer s1.Stop()
	getMetadataLeader(t, 10*time.Second, s1)
	ctx, cancel := context.WithTimeout(context.Background(), 30*time.Second)
	defer cancel()
	for _, n := range []string{"foo", "bar"} {
		if _, err := s1.api.CreateStream(ctx, &client.CreateStreamRequest{Name: n, Subject: n, Partitions: 2}); err != nil {
			t.Skipf("setup failed: %v", err)
		}
	}
	if _, err := s1.api.JoinConsumerGroup(ctx, &client.JoinConsumerGroupRequest{GroupId: "g", ConsumerId: "a", Streams: []string{"foo", "bar"}}); err != nil {
		t.Skipf("setup failed: %v", err)
	}
	release := make(chan struct{})
	held := make(chan struct{}, 4)
	verifHook = func(name string) {
		if name == "removeStream:notify-groups" {
			held <- struct{}{}
			<-release
		}
	}
	defer func() { verifHook = nil }()
	delDone := make(chan error, 1)
	go func() {
		_, err := s1.api.DeleteStream(ctx, &client.DeleteStreamRequest{Name: "foo"})
		delDone <- err
	}()
	select {
	case <-held:
	case <-time.After(5 * time.Second):
		close(release)
		t.Skip("the notification did not start")
	}
	// one more group operation is committed while the notification of the deletion is held; where the notification
	// is part of applying the deletion the join simply waits for it
	joinDone := make(chan error, 1)
	go func() {
		_, err := s1.api.JoinConsumerGroup(ctx, &client.JoinConsumerGroupRequest{GroupId: "g", ConsumerId: "b", Streams: []string{"bar"}})
		joinDone <- err
	}()
	select {
	case err := <-joinDone:
		joinDone <- err
	case <-time.After(1500 * time.Millisecond):
	}
	close(release)
	if err := <-joinDone; err != nil {
		t.Skipf("join failed: %v", err)
	}
	if err := <-delDone; err != nil {
		t.Skipf("delete failed: %v", err)
	}
	time.Sleep(300 * time.Millisecond)
	var problems []string
	s1.metadata.consumerGroupsMu.RLock()
	g := s1.metadata.consumerGroups["g"]
	s1.metadata.consumerGroupsMu.RUnlock()
	if g == nil {
		t.Skip("group not found")
	}
	g.mu.RLock()
	for id, m := range g.members {
		if ps, ok := m.assignments["foo"]; ok && len(ps) > 0 {
			problems = append(problems, fmt.Sprintf("member %s still holds partitions %v of the deleted stream foo", id, ps))
		}
		if _, ok := m.streams["foo"]; ok {
			problems = append(problems, fmt.Sprintf("member %s is still subscribed to the deleted stream foo", id))
		}
	}
	if _, ok := g.subscribers["foo"]; ok {
		problems = append(problems, "the group still has a subscriber list for the deleted stream foo")
	}
	g.mu.RUnlock()
	if len(problems) > 0 {
		t.Fatalf("LBVC-REPRODUCED (obligation %s): DeleteStream(foo) committed, then JoinConsumerGroup(b) committed; the notification of the deletion ran after the join was applied and was refused by the epoch guard: %s", os.Getenv("LBVC_OBLIGATION"), strings.Join(problems, "; "))
	}
}
