package server

// Replay scenario for newPartition's clause "the server-wide switch is the default" (property C16): on a server
// configured with streams.concurrency.control = true a stream created WITHOUT its own override must check expected
// offsets: a publish expecting offset 100 into an empty log is refused with an incorrect-offset error and nothing is
// stored; the stream's own override (off) still wins.

import (
	"context"
	"fmt"
	"os"
	"testing"
	"time"

	lift "github.com/liftbridge-io/go-liftbridge/v2"
)

func TestLbvcScenarioServerWideConcurrencyControl(t *testing.T) {
	defer cleanupStorage(t)
	cfg := getTestConfig("a", true, 5050)
	cfg.Streams.ConcurrencyControl = true
	s1 := runServerWithConfig(t, cfg)
	defer s1.Stop()
	getMetadataLeader(t, 10*time.Second, s1)
	c, err := lift.Connect([]string{"localhost:5050"})
	if err != nil {
		t.Skip(err)
	}
	defer c.Close()
	if err := c.CreateStream(context.Background(), "foo", "foo"); err != nil {
		t.Skip(err)
	}
	if err := c.CreateStream(context.Background(), "bar", "bar", lift.OptimisticConcurrencyControl(false)); err != nil {
		t.Skip(err)
	}
	p := s1.metadata.GetPartition("foo", 0)
	q := s1.metadata.GetPartition("bar", 0)
	if p == nil || q == nil {
		t.Skip("no partition")
	}
	var problems []string
	ctx, cancel := context.WithTimeout(context.Background(), 5*time.Second)
	defer cancel()
	_, err = c.Publish(ctx, "foo", []byte("x"), lift.AckPolicyLeader(), lift.ExpectedOffset(100))
	if err == nil || p.log.NewestOffset() >= 0 || !p.log.IsConcurrencyControlEnabled() {
		problems = append(problems, fmt.Sprintf("server configured with streams.concurrency.control=true, stream foo created without an override: "+
			"a publish expecting offset 100 into the empty log returned %v, newest offset now %d, concurrency control enabled on its log: %v",
			err, p.log.NewestOffset(), p.log.IsConcurrencyControlEnabled()))
	}
	if q.log.IsConcurrencyControlEnabled() {
		problems = append(problems, "stream bar created with concurrency control explicitly OFF has it enabled")
	}
	if len(problems) > 0 {
		t.Fatalf("LBVC-REPRODUCED (obligation %s): %v", os.Getenv("LBVC_OBLIGATION"), problems)
	}
}
