package server

// Replay scenario for failoverStatus.report's obligation "one election per reported leader" (property C07): a new
// leader is chosen only after more than half of the in-sync followers reported THE CURRENT leader.
//
// Single-node controller a; partition fooN/0 with replicas and ISR {r1..r5}, leader r1, epoch E (the servers r1..r5 do
// not exist, only the metadata is exercised). Forced schedule: the proposal lock is held (another proposal is being
// made). r2, r3, r4 report (r1, E): the third report reaches the quorum, picks a candidate and queues for the lock.
// Until the change is applied (r1, E) is still current, so r2, r3 (repeating) and r5 are accepted again: a second
// quorum against the same (leader, epoch). The lock is released. Oracle: at most ONE leader change follows - a second
// one deposes the leader the first installed, which nobody reported (all six reports named r1). The two elections
// pick their candidates independently (ties broken by map order), so the schedule is repeated on fresh partitions.
// (Adapted from the reproduction written by a round-5 seed author.)

import (
	"context"
	"fmt"
	"os"
	"testing"
	"time"

	"github.com/hashicorp/raft"
	"google.golang.org/grpc/status"

	proto "github.com/liftbridge-io/liftbridge/server/protocol"
)

func TestLbvcScenarioOneElectionPerReportedLeader(t *testing.T) {
	defer cleanupStorage(t)
	s := runServerWithConfig(t, getTestConfig("a", true, 5050))
	getMetadataLeader(t, 10*time.Second, s)
	problem := ""
	for attempt := 0; attempt < 12 && problem == ""; attempt++ {
		name := fmt.Sprintf("foo%d", attempt)
		replicas := []string{"r1", "r2", "r3", "r4", "r5"}
		op := &proto.RaftLog{Op: proto.Op_CREATE_STREAM, CreateStreamOp: &proto.CreateStreamOp{Stream: &proto.Stream{Name: name, Subject: name,
			Partitions: []*proto.Partition{{Stream: name, Subject: name, Id: 0, Replicas: append([]string(nil), replicas...), Isr: append([]string(nil), replicas...), Leader: "r1"}}}}}
		ctx, cancel := context.WithTimeout(context.Background(), 10*time.Second)
		fut, err := s.getRaft().applyOperation(ctx, op, s.metadata.checkCreateStreamPreconditions)
		if err != nil || fut.Error() != nil {
			cancel()
			s.Stop()
			t.Skipf("setup failed: %v", err)
		}
		cancel()
		p := s.metadata.GetPartition(name, 0)
		leader, epoch := p.GetLeader()
		report := func(replica string) *status.Status {
			ctx, cancel := context.WithTimeout(context.Background(), 20*time.Second)
			defer cancel()
			return s.metadata.ReportLeader(ctx, &proto.ReportLeaderOp{Stream: name, Partition: 0, Replica: replica, Leader: leader, LeaderEpoch: epoch})
		}
		raftNode := s.getRaft()
		raftNode.Lock()
		report("r2")
		report("r3")
		first := make(chan *status.Status, 1)
		go func() { first <- report("r4") }()
		time.Sleep(400 * time.Millisecond)
		report("r2")
		report("r3")
		second := make(chan *status.Status, 1)
		go func() { second <- report("r5") }()
		time.Sleep(400 * time.Millisecond)
		raftNode.Unlock()
		<-first
		<-second
		// every leader change is an entry of the metadata Raft log: count the CHANGE_LEADER entries for this partition
		newLeader, newEpoch := p.GetLeader()
		changes, leaders := 0, []string{}
		last, _ := raftNode.store.LastIndex()
		for idx := epoch + 1; idx <= last; idx++ {
			l := new(raft.Log)
			if err := raftNode.store.GetLog(idx, l); err != nil || l.Type != raft.LogCommand {
				continue
			}
			e := new(proto.RaftLog)
			if err := e.Unmarshal(l.Data); err != nil {
				continue
			}
			if e.Op == proto.Op_CHANGE_LEADER && e.ChangeLeaderOp.Stream == name {
				changes++
				leaders = append(leaders, e.ChangeLeaderOp.Leader)
			}
		}
		if changes >= 2 && newLeader == leaders[len(leaders)-1] && leaders[0] != leaders[len(leaders)-1] {
			problem = fmt.Sprintf("in-sync set {r1..r5}, leader r1 (epoch %d): r2 r3 r4 report r1 - quorum, an election is started and waits for the proposal lock; r2 r3 r5 report r1 again - a second quorum against the same leader and epoch; afterwards the metadata log holds %d leader changes for the partition (to %v; leader now %s, epoch %d): the leader installed by the first was replaced although nobody had reported it (attempt %d)", epoch, changes, leaders, newLeader, newEpoch, attempt+1)
		}
	}
	if problem != "" {
		fmt.Printf("--- FAIL: LBVC-REPRODUCED (obligation %s): %s\n", os.Getenv("LBVC_OBLIGATION"), problem)
		s.Stop()
		os.Exit(1)
	}
	s.Stop()
}

