package server

// Replay scenario for the consumer groups (properties C12, C06): "servers that applied the same sequence of group
// operations hand out identical assignments for the same group epoch". A stream subscribed to by overlapping members
// is deleted, another member joins, the server restarts and REPLAYS these operations: the groups must be told about the
// deletion at the deletion's own place in the sequence (as a server that applied it live was), so the assignments and
// the group epoch after the replay are what they were before the restart.

import (
	"context"
	"fmt"
	"os"
	"sort"
	"strings"
	"testing"
	"time"

	lift "github.com/liftbridge-io/go-liftbridge/v2"
	proto "github.com/liftbridge-io/liftbridge/server/protocol"
)

func lbvcRenderGroup(g *consumerGroup) string {
	g.mu.RLock()
	defer g.mu.RUnlock()
	var lines []string
	for id, m := range g.members {
		var streams []string
		for stream, parts := range m.assignments {
			if len(parts) == 0 {
				continue
			}
			sorted := append([]int32(nil), parts...)
			sort.Slice(sorted, func(i, j int) bool { return sorted[i] < sorted[j] })
			streams = append(streams, fmt.Sprintf("%s%v", stream, sorted))
		}
		sort.Strings(streams)
		lines = append(lines, fmt.Sprintf("%s:{%s}", id, strings.Join(streams, " ")))
	}
	sort.Strings(lines)
	return fmt.Sprintf("epoch=%d %s", g.epoch, strings.Join(lines, " "))
}

func TestLbvcScenarioDeletionReplayed(t *testing.T) {
	defer cleanupStorage(t)
	cfg := getTestConfig("a", true, 5050)
	cfg.CursorsStream.Partitions = 1
	cfg.Groups.ConsumerTimeout = time.Hour
	s1 := runServerWithConfig(t, cfg)
	getMetadataLeader(t, 10*time.Second, s1)
	client, err := lift.Connect([]string{"localhost:5050"})
	if err != nil {
		s1.Stop()
		t.Skipf("setup failed: %v", err)
	}
	ctx := context.Background()
	for _, st := range []struct {
		name  string
		parts int32
	}{{"a", 2}, {"b", 3}, {"c", 2}} {
		if err := client.CreateStream(ctx, st.name, st.name, lift.Partitions(st.parts)); err != nil {
			client.Close()
			s1.Stop()
			t.Skipf("setup failed: %v", err)
		}
	}
	join := func(consumer string, streams ...string) bool {
		_, _, st := s1.metadata.JoinConsumerGroup(ctx, &proto.JoinConsumerGroupOp{GroupId: "g", ConsumerId: consumer, Streams: streams})
		return st == nil
	}
	ok := join("c0", "a", "b", "c") && join("c1", "a", "b", "c") && join("c2", "b", "c")
	ok = ok && client.DeleteStream(ctx, "a") == nil && join("cz", "c")
	g := s1.metadata.GetConsumerGroup("g")
	if !ok || g == nil {
		client.Close()
		s1.Stop()
		t.Skip("setup failed: group operations")
	}
	before := lbvcRenderGroup(g)
	client.Close()
	s1.Stop()
	s1.config.Port = 5051
	s1 = runServerWithConfig(t, s1.config)
	defer s1.Stop()
	getMetadataLeader(t, 10*time.Second, s1)
	deadline := time.Now().Add(15 * time.Second)
	for {
		g = s1.metadata.GetConsumerGroup("g")
		if g != nil && len(g.GetMembers()) == 4 && s1.metadata.GetStream("a") == nil {
			g.mu.RLock()
			recovering := g.recovered
			g.mu.RUnlock()
			if !recovering {
				break
			}
		}
		if time.Now().After(deadline) {
			t.Skip("the group was not rebuilt after the restart")
		}
		time.Sleep(15 * time.Millisecond)
	}
	after := lbvcRenderGroup(g)
	if before != after {
		t.Fatalf("LBVC-REPRODUCED (obligation %s): members c0 c1 {a b c}, c2 {b c}; stream a deleted, then cz {c} joins; restart with log replay: before the restart the group hands out [%s], after replaying the same operations [%s]",
			os.Getenv("LBVC_OBLIGATION"), before, after)
	}
}
