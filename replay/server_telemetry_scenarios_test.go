package server

// Replay scenario for the telemetry opt-out obligations (property C19): every documented way of switching telemetry
// off - configuration file, environment variable, programmatic configuration - must leave Config.Telemetry.Enabled
// false, with and without a configuration file; and a server started with it off must not create a collector.

import (
	"fmt"
	"os"
	"path/filepath"
	"strings"
	"testing"
)

func TestLbvcScenarioTelemetryOptOut(t *testing.T) {
	var problems []string
	dir, err := os.MkdirTemp("", "lbvc-tel-")
	if err != nil {
		t.Skip(err)
	}
	defer os.RemoveAll(dir)
	write := func(name, content string) string {
		p := filepath.Join(dir, name)
		os.WriteFile(p, []byte(content), 0o644)
		return p
	}
	plain := write("plain.yaml", "listen: localhost:9293\n")
	off := write("off.yaml", "telemetry:\n  enabled: false\n")
	on := write("on.yaml", "telemetry:\n  enabled: true\n")
	type tc struct {
		desc   string
		file   string
		env    string // value of LIFTBRIDGE_TELEMETRY_ENABLED, "" = unset
		expect bool
	}
	cases := []tc{
		{"no configuration file, no environment variable", "", "", true},
		{"configuration file without a telemetry section", plain, "", true},
		{"configuration file with telemetry.enabled: false", off, "", false},
		{"no configuration file, LIFTBRIDGE_TELEMETRY_ENABLED=false", "", "false", false},
		{"configuration file without a telemetry section, LIFTBRIDGE_TELEMETRY_ENABLED=false", plain, "false", false},
		{"configuration file with telemetry.enabled: true, LIFTBRIDGE_TELEMETRY_ENABLED=false", on, "false", false},
		{"configuration file with telemetry.enabled: false, LIFTBRIDGE_TELEMETRY_ENABLED=false", off, "false", false},
	}
	for _, c := range cases {
		if c.env != "" {
			os.Setenv("LIFTBRIDGE_TELEMETRY_ENABLED", c.env)
		} else {
			os.Unsetenv("LIFTBRIDGE_TELEMETRY_ENABLED")
		}
		cfg, err := NewConfig(c.file)
		os.Unsetenv("LIFTBRIDGE_TELEMETRY_ENABLED")
		if err != nil {
			problems = append(problems, fmt.Sprintf("%s: NewConfig failed: %v", c.desc, err))
			continue
		}
		if cfg.Telemetry.Enabled != c.expect {
			problems = append(problems, fmt.Sprintf("%s: Telemetry.Enabled = %v, expected %v", c.desc, cfg.Telemetry.Enabled, c.expect))
		}
	}
	if len(problems) > 0 {
		t.Fatalf("LBVC-REPRODUCED (obligation %s): %s", os.Getenv("LBVC_OBLIGATION"), strings.Join(problems, "; "))
	}
}
