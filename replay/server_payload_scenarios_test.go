package server

// Replay scenario for the publish-path obligations (property C14): whatever arrives on a stream's subject is either an
// envelope that decodes - then exactly its fields are stored - or an opaque value stored verbatim with nothing else
// taken from it. Payloads: a valid publish envelope, every prefix of it, and the envelope with each single byte changed.

import (
	"bytes"
	"fmt"
	"os"
	"strings"
	"testing"

	client "github.com/liftbridge-io/liftbridge-api/v2/go"
	nats "github.com/nats-io/nats.go"

	proto "github.com/liftbridge-io/liftbridge/server/protocol"
)

func TestLbvcScenarioPayload(t *testing.T) {
	env, err := proto.MarshalPublish(&client.Message{Key: []byte("k"), Value: []byte("the value"), AckInbox: "inbox.1", CorrelationId: "c-1",
		AckPolicy: client.AckPolicy_ALL, Offset: 7, Headers: map[string][]byte{"h": []byte("x")}})
	if err != nil {
		t.Skip(err)
	}
	var payloads [][]byte
	payloads = append(payloads, env, []byte("plain text"), nil)
	for cut := 0; cut < len(env); cut++ {
		payloads = append(payloads, append([]byte{}, env[:cut]...))
	}
	for i := 0; i < len(env); i++ {
		c := append([]byte{}, env...)
		c[i] ^= 0x41
		payloads = append(payloads, c)
	}
	var problems []string
	for _, p := range payloads {
		want, derr := proto.UnmarshalPublish(p)
		var got = natsToProtoMessage(&nats.Msg{Subject: "foo", Data: p}, 1)
		desc := fmt.Sprintf("payload %x", p)
		if len(desc) > 60 {
			desc = desc[:60] + "..."
		}
		if derr != nil {
			if !bytes.Equal(got.Value, p) || got.Key != nil || got.AckInbox != "" || got.CorrelationID != "" || got.AckPolicy != 0 || len(got.Headers) != 2 {
				problems = append(problems, fmt.Sprintf("%s does not decode (%v) but was not stored as an opaque value: key %q ack inbox %q correlation id %q policy %v headers %d value == payload: %v",
					desc, derr, got.Key, got.AckInbox, got.CorrelationID, got.AckPolicy, len(got.Headers), bytes.Equal(got.Value, p)))
			}
		} else if !bytes.Equal(got.Value, want.Value) || !bytes.Equal(got.Key, want.Key) || got.AckInbox != want.AckInbox || got.CorrelationID != want.CorrelationId || got.AckPolicy != want.AckPolicy || got.Offset != want.Offset {
			problems = append(problems, fmt.Sprintf("%s decodes but is stored with other fields than it encodes", desc))
		}
	}
	if len(problems) > 0 {
		if len(problems) > 4 {
			problems = append(problems[:4], fmt.Sprintf("... and %d more", len(problems)-4))
		}
		t.Fatalf("LBVC-REPRODUCED (obligation %s): %s", os.Getenv("LBVC_OBLIGATION"), strings.Join(problems, "; "))
	}
}
