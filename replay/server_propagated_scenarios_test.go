package server

// Replay scenario for the propagated-request obligations (property C14): a well-formed PropagatedRequest envelope that
// names an operation but carries no body for it (every protobuf field is optional on the wire) is handed to the real
// handler of a running metadata leader; it must be refused or answered, not crash the process.

import (
	"context"
	"fmt"
	"os"
	"strings"
	"testing"
	"time"

	client "github.com/liftbridge-io/liftbridge-api/v2/go"
	nats "github.com/nats-io/nats.go"

	"github.com/liftbridge-io/liftbridge/server/commitlog"

	proto "github.com/liftbridge-io/liftbridge/server/protocol"
)

func TestLbvcScenarioPropagatedRequest(t *testing.T) {
	defer cleanupStorage(t)
	cfg := getTestConfig("a", true, 5050)
	s1 := runServerWithConfig(t, cfg)
	defer s1.Stop()
	getMetadataLeader(t, 10*time.Second, s1)
	var problems []string
	ops := []proto.Op{proto.Op_CREATE_STREAM, proto.Op_SHRINK_ISR, proto.Op_EXPAND_ISR, proto.Op_REPORT_LEADER, proto.Op_DELETE_STREAM, proto.Op_PAUSE_STREAM,
		proto.Op_RESUME_STREAM, proto.Op_SET_STREAM_READONLY, proto.Op_JOIN_CONSUMER_GROUP, proto.Op_LEAVE_CONSUMER_GROUP, proto.Op_REPORT_CONSUMER_GROUP_COORDINATOR}
	// the operation number is a 32-bit integer on the wire: numbers no operation has, negative ones and the extremes too
	for _, n := range []int32{-1, -2, -130, 3, 8, 10, 14, 15, 127, 128, 1000, -2147483648, 2147483647} {
		ops = append(ops, proto.Op(n))
	}
	for _, op := range ops {
		data, err := proto.MarshalPropagatedRequest(&proto.PropagatedRequest{Op: op})
		if err != nil {
			continue
		}
		func() {
			defer func() {
				if r := recover(); r != nil {
					problems = append(problems, fmt.Sprintf("a propagated %s request without a body (%d bytes on the wire) crashes the handler: %v", op, len(data), r))
				}
			}()
			s1.handlePropagatedRequest(&nats.Msg{Subject: "x", Data: data})
		}()
	}
	// a body that is there but empty: a create-stream operation that names no stream
	if data, err := proto.MarshalPropagatedRequest(&proto.PropagatedRequest{Op: proto.Op_CREATE_STREAM, CreateStreamOp: &proto.CreateStreamOp{}}); err == nil {
		func() {
			defer func() {
				if r := recover(); r != nil {
					problems = append(problems, fmt.Sprintf("a propagated CREATE_STREAM request whose body carries no stream (%d bytes on the wire) crashes the handler: %v", len(data), r))
				}
			}()
			s1.handlePropagatedRequest(&nats.Msg{Subject: "x", Data: data})
		}()
	}
	if len(problems) > 0 {
		if len(problems) > 3 {
			problems = append(problems[:3], fmt.Sprintf("... and %d more operations", len(problems)-3))
		}
		// a handler that panicked may have died holding a metadata lock: do not try to stop the server
		fmt.Printf("--- FAIL: LBVC-REPRODUCED (obligation %s): %s\n", os.Getenv("LBVC_OBLIGATION"), strings.Join(problems, "; "))
		os.Exit(1)
	}
}

// A replication request naming any replica id - also the leader's own - must not crash the partition leader.
func TestLbvcScenarioReplicationRequest(t *testing.T) {
	defer cleanupStorage(t)
	cfg := getTestConfig("a", true, 5050)
	s1 := runServerWithConfig(t, cfg)
	getMetadataLeader(t, 10*time.Second, s1)
	op := &proto.RaftLog{Op: proto.Op_CREATE_STREAM, CreateStreamOp: &proto.CreateStreamOp{Stream: &proto.Stream{
		Name: "foo", Subject: "foo", Partitions: []*proto.Partition{{Stream: "foo", Subject: "foo", Id: 0, ReplicationFactor: 1,
			Replicas: []string{"a"}, Isr: []string{"a"}, Leader: "a"}}}}}
	fut, err := s1.getRaft().applyOperation(context.Background(), op, nil)
	if err != nil || fut.Error() != nil {
		s1.Stop()
		t.Skipf("setup failed: %v", err)
	}
	waitForPartition(t, 5*time.Second, "foo", 0, s1)
	p := s1.metadata.GetPartition("foo", 0)
	_, epoch := p.GetLeader()
	var problems []string
	for _, id := range []string{"a", "b", "", "zzz"} {
		for _, e := range []uint64{0, epoch} {
			data, err := proto.MarshalReplicationRequest(&proto.ReplicationRequest{ReplicaID: id, Offset: -1, LeaderEpoch: e})
			if err != nil {
				continue
			}
			func() {
				defer func() {
					if r := recover(); r != nil {
						problems = append(problems, fmt.Sprintf("a replication request naming replica %q (leader epoch %d) crashes the leader %q: %v", id, e, "a", r))
					}
				}()
				p.handleReplicationRequest(&nats.Msg{Subject: "x", Reply: "_INBOX.x", Data: data})
			}()
		}
	}
	if len(problems) > 0 {
		fmt.Printf("--- FAIL: LBVC-REPRODUCED (obligation %s): %s\n", os.Getenv("LBVC_OBLIGATION"), strings.Join(problems, "; "))
		os.Exit(1)
	}
	s1.Stop()
}

// An acknowledgement for a message that arrived on a subject which is not valid UTF-8 (NATS subjects are arbitrary
// bytes; a stream with a wildcard subject receives them) must not crash the partition leader.
func TestLbvcScenarioAckForOddSubject(t *testing.T) {
	defer cleanupStorage(t)
	cfg := getTestConfig("a", true, 5050)
	s1 := runServerWithConfig(t, cfg)
	getMetadataLeader(t, 10*time.Second, s1)
	op := &proto.RaftLog{Op: proto.Op_CREATE_STREAM, CreateStreamOp: &proto.CreateStreamOp{Stream: &proto.Stream{
		Name: "foo", Subject: "foo.*", Partitions: []*proto.Partition{{Stream: "foo", Subject: "foo.*", Id: 0, ReplicationFactor: 1,
			Replicas: []string{"a"}, Isr: []string{"a"}, Leader: "a"}}}}}
	fut, err := s1.getRaft().applyOperation(context.Background(), op, nil)
	if err != nil || fut.Error() != nil {
		s1.Stop()
		t.Skipf("setup failed: %v", err)
	}
	waitForPartition(t, 5*time.Second, "foo", 0, s1)
	p := s1.metadata.GetPartition("foo", 0)
	var problems []string
	try := func(what string, f func()) {
		defer func() {
			if r := recover(); r != nil {
				problems = append(problems, fmt.Sprintf("%s for a message received on subject %q panics: %v", what, "foo.\xff", r))
			}
		}()
		f()
	}
	m := &commitlog.Message{Value: []byte("v"), AckInbox: "_INBOX.x", CorrelationID: "c", Headers: map[string][]byte{"subject": []byte("foo.\xff")}}
	try("the acknowledgement", func() {
		p.sendAck(&client.Ack{Stream: "foo", PartitionSubject: "foo.*", MsgSubject: string(m.Headers["subject"]), AckInbox: m.AckInbox, CorrelationId: m.CorrelationID})
	})
	try("the too-large negative acknowledgement", func() { p.sendTooLargeNack(m) })
	if len(problems) > 0 {
		fmt.Printf("--- FAIL: LBVC-REPRODUCED (obligation %s): %s\n", os.Getenv("LBVC_OBLIGATION"), strings.Join(problems, "; "))
		os.Exit(1)
	}
	s1.Stop()
}
