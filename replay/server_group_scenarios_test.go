package server

// Replay scenario for the group-subscription lock invariant (property C13): consumer A subscribes
// with epoch 5, re-subscribes with epoch 6 (replacing its own subscription), one message is published
// so that the replaced loop wakes up and runs its clean-up; then consumer B with the OLDER epoch 1
// subscribes. B must be refused while A/6 is active.

import (
	"context"
	"fmt"
	"os"
	"testing"
	"time"

	lift "github.com/liftbridge-io/go-liftbridge/v2"
	client "github.com/liftbridge-io/liftbridge-api/v2/go"
	"google.golang.org/grpc/status"

	proto "github.com/liftbridge-io/liftbridge/server/protocol"
)

func TestLbvcScenarioGroupSubscribers(t *testing.T) {
	defer cleanupStorage(t)
	cfg := getTestConfig("a", true, 5050)
	s1 := runServerWithConfig(t, cfg)
	defer s1.Stop()
	getMetadataLeader(t, 10*time.Second, s1)
	if _, err := s1.api.CreateStream(context.Background(), &client.CreateStreamRequest{Name: "foo", Subject: "foo"}); err != nil {
		t.Skipf("setup failed: %v", err)
	}
	p := s1.metadata.GetPartition("foo", 0)
	for i := 0; i < 100 && (p == nil || !p.IsLeader()); i++ {
		time.Sleep(50 * time.Millisecond)
		p = s1.metadata.GetPartition("foo", 0)
	}
	if p == nil {
		t.Skip("no partition")
	}
	ctx, cancelAll := context.WithCancel(context.Background())
	var subs []*subscription
	// every subscription must be closed before the server stops (Stop waits for the subscription loops)
	defer func() {
		for _, s := range subs {
			s.Close()
		}
		cancelAll()
		time.Sleep(100 * time.Millisecond)
	}()
	sub := func(cons string, epoch uint64) (*subscription, *status.Status) {
		s, st := p.Subscribe(ctx, &client.SubscribeRequest{Stream: "foo", StartPosition: client.StartPosition_NEW_ONLY,
			Consumer: &client.Consumer{GroupId: "g", ConsumerId: cons, GroupEpoch: epoch}})
		if s != nil {
			subs = append(subs, s)
		}
		return s, st
	}
	drain := func(s *subscription) {
		go func() {
			for {
				select {
				case <-s.Messages():
				case <-s.Errors():
				case <-s.Closed():
					return
				case <-ctx.Done():
					return
				}
			}
		}()
	}
	s1a, st := sub("A", 5)
	if st != nil {
		t.Skipf("setup failed: %v", st.Err())
	}
	drain(s1a)
	s2a, st := sub("A", 6)
	if st != nil {
		t.Skipf("setup failed: %v", st.Err())
	}
	drain(s2a)
	select {
	case <-s1a.Closed():
	case <-time.After(2 * time.Second):
		t.Fatalf("LBVC-REPRODUCED (obligation %s): the replaced subscription A/5 was not cancelled", os.Getenv("LBVC_OBLIGATION"))
	}
	cl, err := lift.Connect([]string{"localhost:5050"})
	if err != nil {
		t.Skipf("setup failed: %v", err)
	}
	defer cl.Close()
	if _, err = cl.Publish(context.Background(), "foo", []byte("m0"), lift.AckPolicyLeader()); err != nil {
		t.Skipf("publish failed: %v", err)
	}
	time.Sleep(500 * time.Millisecond)
	s3, st := sub("B", 1)
	if st == nil {
		drain(s3)
		select {
		case <-s2a.Closed():
			t.Fatalf("LBVC-REPRODUCED (obligation %s): a subscriber with the OLDER group epoch 1 replaced the active subscription of epoch 6", os.Getenv("LBVC_OBLIGATION"))
		default:
			t.Fatalf("LBVC-REPRODUCED (obligation %s): subscriber B with older epoch 1 was admitted while A (epoch 6) is active: two active group subscriptions", os.Getenv("LBVC_OBLIGATION"))
		}
	}
	// equal-or-newer epoch replaces and cancels the current one
	s4, st := sub("C", 6)
	if st != nil {
		t.Fatalf("LBVC-REPRODUCED (obligation %s): a subscriber with an equal group epoch was refused: %v", os.Getenv("LBVC_OBLIGATION"), st.Err())
	}
	drain(s4)
	select {
	case <-s2a.Closed():
	case <-time.After(2 * time.Second):
		t.Fatalf("LBVC-REPRODUCED (obligation %s): the replaced subscription was not cancelled", os.Getenv("LBVC_OBLIGATION"))
	}
}

// The expiry call-back of a member that has already left (the removal is then refused) must not crash.
func TestLbvcScenarioExpiryAfterLeave(t *testing.T) {
	g := newConsumerGroup("this-server", time.Hour, &proto.ConsumerGroup{Id: "g", Coordinator: "this-server", Epoch: 0}, false, noopLogger(),
		func(string, string) error { return ErrConsumerNotMember }, func(string) int32 { return 2 })
	defer g.Close()
	if err := g.AddMember("a", []string{"s1"}, 1); err != nil {
		t.Skip(err)
	}
	expired := g.consumerExpired("a") // the timer has fired ...
	if _, err := g.RemoveMember("a", 2); err != nil { // ... but the leave is applied first
		t.Skip(err)
	}
	var problem string
	func() {
		defer func() {
			if r := recover(); r != nil {
				problem = fmt.Sprintf("join(a), leave(a), then the expiry call-back of a runs and its removal is refused (not a member): the call-back panics: %v - on a timer goroutine this ends the process", r)
			}
		}()
		expired()
	}()
	if problem != "" {
		// the call-back died holding the group's lock: do not run the deferred Close
		fmt.Printf("--- FAIL: LBVC-REPRODUCED (obligation %s): %s\n", os.Getenv("LBVC_OBLIGATION"), problem)
		os.Exit(1)
	}
}
