package server

// Replay scenario for the group-subscription lock invariant (property C13): consumer A subscribes
// with epoch 5, re-subscribes with epoch 6 (replacing its own subscription), one message is published
// so that the replaced loop wakes up and runs its clean-up; then consumer B with the OLDER epoch 1
// subscribes. B must be refused while A/6 is active.

import (
	"context"
	"fmt"
	"os"
	"testing"
	"time"

	lift "github.com/liftbridge-io/go-liftbridge/v2"
	client "github.com/liftbridge-io/liftbridge-api/v2/go"
	"google.golang.org/grpc/status"

	proto "github.com/liftbridge-io/liftbridge/server/protocol"
)

func TestLbvcScenarioGroupSubscribers(t *testing.T) {
	defer cleanupStorage(t)
	cfg := getTestConfig("a", true, 5050)
	s1 := runServerWithConfig(t, cfg)
	defer s1.Stop()
	getMetadataLeader(t, 10*time.Second, s1)
	if _, err := s1.api.CreateStream(context.Background(), &client.CreateStreamRequest{Name: "foo", Subject: "foo"}); err != nil {
		t.Skipf("setup failed: %v", err)
	}
	p := s1.metadata.GetPartition("foo", 0)
	for i := 0; i < 100 && (p == nil || !p.IsLeader()); i++ {
		time.Sleep(50 * time.Millisecond)
		p = s1.metadata.GetPartition("foo", 0)
	}
	if p == nil {
		t.Skip("no partition")
	}
	ctx, cancelAll := context.WithCancel(context.Background())
	var subs []*subscription
	// every subscription must be closed before the server stops (Stop waits for the subscription loops)
	defer func() {
		for _, s := range subs {
			s.Close()
		}
		cancelAll()
		time.Sleep(100 * time.Millisecond)
	}()
	sub := func(cons string, epoch uint64) (*subscription, *status.Status) {
		s, st := p.Subscribe(ctx, &client.SubscribeRequest{Stream: "foo", StartPosition: client.StartPosition_NEW_ONLY,
			Consumer: &client.Consumer{GroupId: "g", ConsumerId: cons, GroupEpoch: epoch}})
		if s != nil {
			subs = append(subs, s)
		}
		return s, st
	}
	drain := func(s *subscription) {
		go func() {
			for {
				select {
				case <-s.Messages():
				case <-s.Errors():
				case <-s.Closed():
					return
				case <-ctx.Done():
					return
				}
			}
		}()
	}
	s1a, st := sub("A", 5)
	if st != nil {
		t.Skipf("setup failed: %v", st.Err())
	}
	drain(s1a)
	s2a, st := sub("A", 6)
	if st != nil {
		t.Skipf("setup failed: %v", st.Err())
	}
	drain(s2a)
	select {
	case <-s1a.Closed():
	case <-time.After(2 * time.Second):
		t.Fatalf("LBVC-REPRODUCED (obligation %s): the replaced subscription A/5 was not cancelled", os.Getenv("LBVC_OBLIGATION"))
	}
	cl, err := lift.Connect([]string{"localhost:5050"})
	if err != nil {
		t.Skipf("setup failed: %v", err)
	}
	defer cl.Close()
	if _, err = cl.Publish(context.Background(), "foo", []byte("m0"), lift.AckPolicyLeader()); err != nil {
		t.Skipf("publish failed: %v", err)
	}
	time.Sleep(500 * time.Millisecond)
	s3, st := sub("B", 1)
	if st == nil {
		drain(s3)
		select {
		case <-s2a.Closed():
			t.Fatalf("LBVC-REPRODUCED (obligation %s): a subscriber with the OLDER group epoch 1 replaced the active subscription of epoch 6", os.Getenv("LBVC_OBLIGATION"))
		default:
			t.Fatalf("LBVC-REPRODUCED (obligation %s): subscriber B with older epoch 1 was admitted while A (epoch 6) is active: two active group subscriptions", os.Getenv("LBVC_OBLIGATION"))
		}
	}
	// equal-or-newer epoch replaces and cancels the current one
	s4, st := sub("C", 6)
	if st != nil {
		t.Fatalf("LBVC-REPRODUCED (obligation %s): a subscriber with an equal group epoch was refused: %v", os.Getenv("LBVC_OBLIGATION"), st.Err())
	}
	drain(s4)
	select {
	case <-s2a.Closed():
	case <-time.After(2 * time.Second):
		t.Fatalf("LBVC-REPRODUCED (obligation %s): the replaced subscription was not cancelled", os.Getenv("LBVC_OBLIGATION"))
	}
}

// The expiry call-back of a member that has already left (the removal is then refused) must not crash.
func TestLbvcScenarioExpiryAfterLeave(t *testing.T) {
	g := newConsumerGroup("this-server", time.Hour, &proto.ConsumerGroup{Id: "g", Coordinator: "this-server", Epoch: 0}, false, noopLogger(),
		func(string, string) error { return ErrConsumerNotMember }, func(string) int32 { return 2 })
	defer g.Close()
	if err := g.AddMember("a", []string{"s1"}, 1); err != nil {
		t.Skip(err)
	}
	expired := g.consumerExpired("a") // the timer has fired ...
	if _, err := g.RemoveMember("a", 2); err != nil { // ... but the leave is applied first
		t.Skip(err)
	}
	var problem string
	func() {
		defer func() {
			if r := recover(); r != nil {
				problem = fmt.Sprintf("join(a), leave(a), then the expiry call-back of a runs and its removal is refused (not a member): the call-back panics: %v - on a timer goroutine this ends the process", r)
			}
		}()
		expired()
	}()
	if problem != "" {
		// the call-back died holding the group's lock: do not run the deferred Close
		fmt.Printf("--- FAIL: LBVC-REPRODUCED (obligation %s): %s\n", os.Getenv("LBVC_OBLIGATION"), problem)
		os.Exit(1)
	}
}

// The group epoch guard (property C12): an operation that carries the group's CURRENT epoch or a newer one is
// applied, an older one is refused and changes nothing. (Group operations carry the index of their Raft log entry;
// a group is created and its first member added by ONE entry, so the equal case is the normal first join.)
func TestLbvcScenarioGroupEpochGuard(t *testing.T) {
	obl := os.Getenv("LBVC_OBLIGATION")
	mk := func() *consumerGroup {
		return newConsumerGroup("this-server", time.Hour, &proto.ConsumerGroup{Id: "g", Coordinator: "this-server", Epoch: 5}, false, noopLogger(),
			func(string, string) error { return nil }, func(string) int32 { return 2 })
	}
	owners := func(g *consumerGroup) string {
		g.mu.RLock()
		defer g.mu.RUnlock()
		s := ""
		for id, m := range g.members {
			s += fmt.Sprintf("%s%v ", id, m.assignments)
		}
		return s
	}
	var problems []string
	g := mk()
	if err := g.AddMember("a", []string{"s1"}, 5); err != nil {
		problems = append(problems, fmt.Sprintf("group at epoch 5: join(a,[s1]) carrying epoch 5 is refused (%v): the group's first member is never added, s1's partitions have no owner", err))
	} else if err := g.AddMember("b", []string{"s1"}, 4); err == nil {
		problems = append(problems, "group at epoch 5: join(b,[s1]) carrying the OLDER epoch 4 is accepted")
	}
	g.Close()
	g = mk()
	if err := g.AddMember("a", []string{"s1"}, 6); err == nil {
		if err := g.AddMember("b", []string{"s1"}, 7); err == nil {
			before := owners(g)
			if _, err := g.RemoveMember("b", 7); err != nil {
				problems = append(problems, fmt.Sprintf("group at epoch 7 with members a, b: leave(b) carrying epoch 7 is refused (%v): b keeps its partitions (%s)", err, before))
			}
			if _, err := g.RemoveMember("a", 3); err == nil {
				problems = append(problems, "leave(a) carrying the older epoch 3 is accepted")
			}
		}
	}
	g.Close()
	g = mk()
	if err := g.AddMember("a", []string{"s1", "s2"}, 6); err == nil {
		if err := g.StreamDeleted("s1", 6); err != nil {
			problems = append(problems, fmt.Sprintf("group at epoch 6: deleteStream(s1) carrying epoch 6 is refused (%v): a keeps partitions of a deleted stream (%s)", err, owners(g)))
		}
	}
	g.Close()
	if len(problems) > 0 {
		t.Fatalf("LBVC-REPRODUCED (obligation %s): %v", obl, problems)
	}
}
