package protocol

// Replay scenario for the envelope obligations (property C14): a byte string is accepted as an envelope of a type only
// if it IS one by the documented format (documentation/envelope_protocol.md: magic number, version 0, the header
// length is the offset of the payload - so at least the 8 fixed header bytes and at most the data -, message type,
// and with the CRC flag a 12-byte header whose checksum matches the payload); every envelope the encoder produces is
// accepted and decodes to the same message; nothing panics. Inputs: every header-length byte x flag byte x type byte
// combination in front of a valid publish payload, and marshalled messages of every type.

import (
	"bytes"
	"fmt"
	"hash/crc32"
	"os"
	"strings"
	"testing"

	client "github.com/liftbridge-io/liftbridge-api/v2/go"
)

func TestLbvcScenarioEnvelope(t *testing.T) {
	var problems []string
	add := func(f string, a ...interface{}) {
		if len(problems) < 6 {
			problems = append(problems, fmt.Sprintf(f, a...))
		}
	}
	full, err := MarshalPublish(&client.Message{Value: []byte("evil"), AckInbox: "x"})
	if err != nil || len(full) < 8 {
		t.Skip(err)
	}
	body := full[int(full[5]):]
	table := crc32.MakeTable(crc32.Castagnoli)
	for hl := 0; hl < 256; hl++ {
		for _, flags := range []byte{0, 1, 2, 3, 0xFA} {
			for _, ty := range []byte{0, 1, 2, 50} {
				for _, pad := range []int{0, 4, 8} {
					data := append([]byte{0xB9, 0x0E, 0x43, 0xB4, 0x00, byte(hl), flags, ty}, bytes.Repeat([]byte{0xAA}, pad)...)
					if flags&1 == 1 && pad >= 4 {
						c := crc32.Checksum(body, table)
						data[8], data[9], data[10], data[11] = byte(c>>24), byte(c>>16), byte(c>>8), byte(c)
					}
					data = append(data, body...)
					wf := hl >= 8 && hl <= len(data)
					if wf && flags&1 == 1 {
						wf = hl == 12 && len(data) >= 12 && crc32.Checksum(data[12:], table) == uint32(data[8])<<24|uint32(data[9])<<16|uint32(data[10])<<8|uint32(data[11])
					}
					func() {
						defer func() {
							if r := recover(); r != nil {
								add("checkEnvelope panics on header length %d flags %#x type %d (%d bytes): %v", hl, flags, ty, len(data), r)
							}
						}()
						payload, err := checkEnvelope(data, msgType(ty))
						if err == nil && !wf {
							add("% x ... (header length %d, flags %#x, %d bytes) is accepted as an envelope of type %d although it is not one by the documented format; payload taken from offset %d", data[:8], hl, flags, len(data), ty, len(data)-len(payload))
						}
						if err != nil && wf {
							add("a well-formed envelope (header length %d, flags %#x, type %d) is rejected: %v", hl, flags, ty, err)
						}
						if err == nil && wf && !bytes.Equal(payload, data[hl:]) {
							add("header length %d: the payload is not taken from the header length's offset", hl)
						}
					}()
				}
			}
		}
	}
	// what the encoder produces is accepted and decodes to the same message
	m := &client.Message{Key: []byte("k"), Value: []byte("v"), AckInbox: "i", CorrelationId: "c", AckPolicy: client.AckPolicy_ALL, Offset: 3}
	if enc, err := MarshalPublish(m); err != nil {
		add("MarshalPublish: %v", err)
	} else if dec, err := UnmarshalPublish(enc); err != nil || !bytes.Equal(dec.Key, m.Key) || !bytes.Equal(dec.Value, m.Value) || dec.AckInbox != m.AckInbox || dec.CorrelationId != m.CorrelationId || dec.AckPolicy != m.AckPolicy || dec.Offset != m.Offset {
		add("a publish envelope does not decode to the message it encodes (%v)", err)
	}
	if len(problems) > 0 {
		t.Fatalf("LBVC-REPRODUCED (obligation %s): %s", os.Getenv("LBVC_OBLIGATION"), strings.Join(problems, "; "))
	}
}
