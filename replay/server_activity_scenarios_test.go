package server

// Replay scenario for the obligation that the activity dispatcher's resume point survives a restart from a snapshot
// (property C18): operations are committed until the Raft log is long enough for a snapshot to compact its head
// away; all events are published; a snapshot is taken and the server restarted. The index the dispatcher resumes
// from must still be in the log (and no operation may be skipped).

import (
	"context"
	"fmt"
	"os"
	"testing"
	"time"

	"github.com/hashicorp/raft"
	client "github.com/liftbridge-io/liftbridge-api/v2/go"
)

func TestLbvcScenarioActivityResumeAfterSnapshot(t *testing.T) {
	defer cleanupStorage(t)
	cfg := getTestConfig("a", true, 5050)
	cfg.ActivityStream.Enabled = true
	s1 := runServerWithConfig(t, cfg)
	getMetadataLeader(t, 10*time.Second, s1)
	ctx, cancel := context.WithTimeout(context.Background(), 600*time.Second)
	defer cancel()
	if _, err := s1.api.CreateStream(ctx, &client.CreateStreamRequest{Name: "foo", Subject: "foo"}); err != nil {
		s1.Stop()
		t.Skipf("setup failed: %v", err)
	}
	// every join / leave is one committed operation plus one committed record of its published event
	deadline := time.Now().Add(400 * time.Second)
	ops := 0
	for s1.getRaft().LastIndex() < 10600 && time.Now().Before(deadline) {
		id := fmt.Sprintf("c%d", ops%3)
		if _, err := s1.api.JoinConsumerGroup(ctx, &client.JoinConsumerGroupRequest{GroupId: "g", ConsumerId: id, Streams: []string{"foo"}}); err == nil {
			ops++
		}
		if _, err := s1.api.LeaveConsumerGroup(ctx, &client.LeaveConsumerGroupRequest{GroupId: "g", ConsumerId: id}); err == nil {
			ops++
		}
	}
	if s1.getRaft().LastIndex() < 10600 {
		s1.Stop()
		t.Skipf("could not make the Raft log long enough in time (last index %d)", s1.getRaft().LastIndex())
	}
	// wait until every event has been published and recorded
	var published uint64
	for i := 0; i < 600; i++ {
		published = s1.activity.LastPublishedRaftIndex()
		if published+3 >= s1.getRaft().LastIndex() {
			break
		}
		time.Sleep(100 * time.Millisecond)
	}
	if err := s1.getRaft().Snapshot().Error(); err != nil {
		s1.Stop()
		t.Skipf("snapshot failed: %v", err)
	}
	s1.Stop()
	// restart without the dispatcher, to look at where it would resume
	cfg2 := *s1.config
	cfg2.ActivityStream.Enabled = false
	s2 := runServerWithConfig(t, &cfg2)
	defer s2.Stop()
	getMetadataLeader(t, 10*time.Second, s2)
	time.Sleep(500 * time.Millisecond)
	resume := s2.activity.LastPublishedRaftIndex() + 1
	first, _ := s2.getRaft().store.FirstIndex()
	err := s2.getRaft().store.GetLog(resume, new(raft.Log))
	if err != nil || resume < first {
		t.Fatalf("LBVC-REPRODUCED (obligation %s): before the restart events up to Raft index %d had been published; after a snapshot and a restart the dispatcher resumes at index %d, but the log now starts at %d: GetLog(%d) = %v, and the dispatcher panics on that error", os.Getenv("LBVC_OBLIGATION"), published, resume, first, resume, err)
	}
	if resume <= published && published > 0 {
		t.Logf("after the restart the dispatcher resumes at %d although events up to %d had been published (re-delivery only)", resume, published)
	}
}
