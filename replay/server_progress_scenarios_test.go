package server

// Replay scenario for the commit-rule obligations about what a leader knows of its followers (properties C02, C04): a
// server that led a partition, was deposed without crashing, and leads it again must start the new term without the
// followers' progress of the earlier term - everybody may have truncated in between.
//
//	term 1  a leads {a b c}: a holds 0..2, b fetched 0..2, c fetched 0; high watermark 0
//	term 2  c (log 0..0) leads; a reconciles with it and truncates to offset 0
//	term 3  a leads again; c is dropped from the in-sync set -> commit check over {a b}
//
// Only offset 0 is stored by every in-sync replica: the high watermark must still be 0.

import (
	"fmt"
	"os"
	"testing"
	"time"

	"github.com/nats-io/nats.go"

	proto "github.com/liftbridge-io/liftbridge/server/protocol"
)

func TestLbvcScenarioStaleProgress(t *testing.T) {
	defer cleanupStorage(t)
	config := getTestConfig("a", true, 5050)
	s := runServerWithConfig(t, config)
	defer s.Stop()
	getMetadataLeader(t, 10*time.Second, s)
	nc, err := nats.GetDefaultOptions().Connect()
	if err != nil {
		t.Skip(err)
	}
	defer nc.Close()
	if _, err = s.metadata.AddStream(&proto.Stream{Name: "foo", Subject: "foo", Partitions: []*proto.Partition{{
		Stream: "foo", Subject: "foo", Id: 0, ReplicationFactor: 3, Replicas: []string{"a", "b", "c"}, Isr: []string{"a", "b", "c"},
		Leader: "a", LeaderEpoch: 1, Epoch: 1}}}, false, 1); err != nil {
		t.Skip(err)
	}
	p := s.metadata.GetPartition("foo", 0)
	if p == nil {
		t.Skip("no partition")
	}
	// the test plays c when c leads: it answers a's leader-epoch offset request (c's log ends at offset 0)
	nc.Subscribe(p.getLeaderOffsetRequestInbox(), func(m *nats.Msg) {
		if resp, err := proto.MarshalLeaderEpochOffsetResponse(&proto.LeaderEpochOffsetResponse{EndOffset: 0}); err == nil {
			m.Respond(resp)
		}
	})
	for i := 0; i < 3; i++ {
		nc.Publish("foo", []byte("term 1"))
	}
	nc.Flush()
	wait := func(cond func() bool) bool {
		deadline := time.Now().Add(5 * time.Second)
		for !cond() {
			if time.Now().After(deadline) {
				return false
			}
			time.Sleep(5 * time.Millisecond)
		}
		return true
	}
	if !wait(func() bool { return p.log.NewestOffset() == 2 }) {
		t.Skip("setup: leader log")
	}
	fetch := func(replica string, offset int64, epoch uint64) {
		if req, err := proto.MarshalReplicationRequest(&proto.ReplicationRequest{ReplicaID: replica, Offset: offset, LeaderEpoch: epoch}); err == nil {
			nc.Request(p.getReplicationRequestInbox(), req, 2*time.Second)
		}
	}
	fetch("b", 2, 1)
	fetch("c", 0, 1)
	if !wait(func() bool { return p.log.HighWatermark() == 0 }) || p.log.HighWatermark() != 0 {
		t.Skip("setup: high watermark 0")
	}
	if err := s.metadata.ChangeLeader("foo", "c", 0, 10); err != nil || p.IsLeader() || p.log.NewestOffset() != 0 {
		t.Skipf("setup: term 2 (%v, leader %v, newest %d)", err, p.IsLeader(), p.log.NewestOffset())
	}
	if err := s.metadata.ChangeLeader("foo", "a", 0, 20); err != nil || !p.IsLeader() {
		t.Skipf("setup: term 3 (%v)", err)
	}
	s.metadata.RemoveFromISR("foo", "c", 0, 30)
	time.Sleep(300 * time.Millisecond)
	if hw, newest := p.log.HighWatermark(), p.log.NewestOffset(); hw != 0 {
		t.Fatalf("LBVC-REPRODUCED (obligation %s): a led with b at offset 2, was deposed, truncated to offset 0 and leads again; b has not fetched anything in the new term, c was dropped from the in-sync set: %s - the leader still counts the progress b reported in the earlier term", os.Getenv("LBVC_OBLIGATION"),
			fmt.Sprintf("high watermark %d although the leader's own log ends at %d and b holds only offset 0", hw, newest))
	}
}
