package server

// Replay scenario for the obligations on the precondition functions of ISR / leader-change proposals (property C07).
// The request checks of ShrinkISR / ExpandISR (the request names the current leader and epoch) and the choice of
// the fail-over candidate (an in-sync replica) are made BEFORE the proposal lock is taken; the scheduling hook (verif
// build tag) lets exactly one other, complete, metadata operation run in that window. What is proposed afterwards
// must still be refused if it has become stale:
//
//	change-leader  the candidate is removed from the ISR in the window        -> the leader must stay in the ISR
//	shrink         the leader named by the request is deposed in the window   -> the stale request must be refused
//	expand         same, for an ISR expansion
//
// Single-node controller a, partition bar/0 with replicas b c d e, ISR {b c d}, leader b (the servers b..e do not
// exist and a is not a replica; only the metadata is exercised).

import (
	"context"
	"fmt"
	"os"
	"sort"
	"strings"
	"testing"
	"time"

	proto "github.com/liftbridge-io/liftbridge/server/protocol"
)

func TestLbvcScenarioProposalRaces(t *testing.T) {
	obl := os.Getenv("LBVC_OBLIGATION")
	want := func(s string) bool {
		return obl == "" || strings.Contains(obl, s)
	}
	var problems []string
	run := func(kind string) {
		cleanupStorage(t)
		cfg := getTestConfig("a", true, 5050)
		cfg.Clustering.ReplicaMaxLeaderTimeout = 5 * time.Second
		s1 := runServerWithConfig(t, cfg)
		defer func() { verifHook = nil; s1.Stop(); cleanupStorage(t) }()
		getMetadataLeader(t, 10*time.Second, s1)
		op := &proto.RaftLog{Op: proto.Op_CREATE_STREAM, CreateStreamOp: &proto.CreateStreamOp{Stream: &proto.Stream{
			Name: "bar", Subject: "bar", Partitions: []*proto.Partition{{Stream: "bar", Subject: "bar", Id: 0, ReplicationFactor: 4,
				Replicas: []string{"b", "c", "d", "e"}, Isr: []string{"b", "c", "d"}, Leader: "b"}}}}}
		fut, err := s1.getRaft().applyOperation(context.Background(), op, nil)
		if err != nil || fut.Error() != nil {
			t.Logf("setup failed: %v", err)
			return
		}
		bp := s1.metadata.GetPartition("bar", 0)
		if bp == nil {
			return
		}
		ctx := context.Background()
		l0, e0 := bp.GetLeader()
		isrOf := func() string { i := bp.GetISR(); sort.Strings(i); return fmt.Sprint(i) }
		report := func(who string) {
			l, e := bp.GetLeader()
			s1.metadata.ReportLeader(ctx, &proto.ReportLeaderOp{Stream: "bar", Partition: 0, Replica: who, Leader: l, LeaderEpoch: e})
		}
		fired := false
		switch kind {
		case "change-leader":
			verifHook = func(name string) {
				if name != "electNewPartitionLeader:candidate-selected" || fired {
					return
				}
				fired = true
				// the current leader removes both followers from the ISR (two complete, valid operations)
				for _, r := range []string{"c", "d"} {
					s1.metadata.ShrinkISR(ctx, &proto.ShrinkISROp{Stream: "bar", Partition: 0, ReplicaToRemove: r, Leader: l0, LeaderEpoch: e0})
				}
			}
			report("c")
			report("d")
			l1, _ := bp.GetLeader()
			if !fired {
				t.Logf("%s: the window was not reached", kind)
				return
			}
			if !bp.inISR(l1) {
				problems = append(problems, fmt.Sprintf("fail-over from %s: the in-sync set shrank to %s between the choice of the candidate and its proposal, and the proposal was applied: leader %s is not in the in-sync set", l0, isrOf(), l1))
			}
		case "shrink", "expand":
			point := "ShrinkISR:request-checked"
			if kind == "expand" {
				point = "ExpandISR:request-checked"
			}
			verifHook = func(name string) {
				if name != point || fired {
					return
				}
				fired = true
				// both in-sync followers report the leader: a complete fail-over
				report("c")
				report("d")
			}
			before := isrOf()
			var ok bool
			if kind == "shrink" {
				ok = s1.metadata.ShrinkISR(ctx, &proto.ShrinkISROp{Stream: "bar", Partition: 0, ReplicaToRemove: "c", Leader: l0, LeaderEpoch: e0}) == nil
			} else {
				ok = s1.metadata.ExpandISR(ctx, &proto.ExpandISROp{Stream: "bar", Partition: 0, ReplicaToAdd: "e", Leader: l0, LeaderEpoch: e0}) == nil
			}
			l1, e1 := bp.GetLeader()
			if !fired || l1 == l0 {
				t.Logf("%s: the window was not reached or no fail-over happened in it", kind)
				return
			}
			if after := isrOf(); after != before || ok {
				problems = append(problems, fmt.Sprintf("an in-sync-set %s naming leader %s epoch %d was accepted=%v after the leader had changed to %s epoch %d: in-sync set %s -> %s, leader in it: %v",
					kind, l0, e0, ok, l1, e1, before, after, bp.inISR(l1)))
			}
		}
	}
	// requests that are current but name the wrong replica
	if want("ShrinkISR") || want("ExpandISR") {
		func() {
			cleanupStorage(t)
			cfg := getTestConfig("a", true, 5050)
			s1 := runServerWithConfig(t, cfg)
			defer func() { s1.Stop(); cleanupStorage(t) }()
			getMetadataLeader(t, 10*time.Second, s1)
			op := &proto.RaftLog{Op: proto.Op_CREATE_STREAM, CreateStreamOp: &proto.CreateStreamOp{Stream: &proto.Stream{
				Name: "bar", Subject: "bar", Partitions: []*proto.Partition{{Stream: "bar", Subject: "bar", Id: 0, ReplicationFactor: 4,
					Replicas: []string{"b", "c", "d", "e"}, Isr: []string{"b", "c", "d"}, Leader: "b"}}}}}
			if fut, err := s1.getRaft().applyOperation(context.Background(), op, nil); err != nil || fut.Error() != nil {
				return
			}
			bp := s1.metadata.GetPartition("bar", 0)
			if bp == nil {
				return
			}
			l0, e0 := bp.GetLeader()
			if want("ExpandISR") {
				// (not proposed: applying it makes Server.Apply panic on every server)
				exp := &proto.RaftLog{Op: proto.Op_EXPAND_ISR, ExpandISROp: &proto.ExpandISROp{Stream: "bar", Partition: 0, ReplicaToAdd: "not-a-replica", Leader: l0, LeaderEpoch: e0}}
				if err := s1.metadata.checkExpandISRPreconditions(exp); err == nil {
					problems = append(problems, "an in-sync-set expansion by \"not-a-replica\" (current leader and epoch) passes the proposal-time check; applying it fails on every server (partition.AddToISR: not a replica) and Server.Apply panics on an apply error")
				}
			}
			if want("ShrinkISR") {
				// (not proposed: applying it makes Server.Apply panic on every server)
				shr := &proto.RaftLog{Op: proto.Op_SHRINK_ISR, ShrinkISROp: &proto.ShrinkISROp{Stream: "bar", Partition: 0, ReplicaToRemove: "not-a-replica", Leader: l0, LeaderEpoch: e0}}
				if err := s1.metadata.checkShrinkISRPreconditions(shr); err == nil {
					problems = append(problems, "an in-sync-set shrink naming \"not-a-replica\" (current leader and epoch) passes the proposal-time check; applying it fails on every server (partition.RemoveFromISR: not a replica) and Server.Apply panics on an apply error")
				}
			}
			if want("ShrinkISR") {
				st := s1.metadata.ShrinkISR(context.Background(), &proto.ShrinkISROp{Stream: "bar", Partition: 0, ReplicaToRemove: l0, Leader: l0, LeaderEpoch: e0})
				if l1, _ := bp.GetLeader(); !bp.inISR(l1) {
					i := bp.GetISR()
					sort.Strings(i)
					problems = append(problems, fmt.Sprintf("an in-sync-set shrink naming the leader %s itself as the replica to remove was accepted (status %v): leader %s is not in the in-sync set %v", l0, st, l1, i))
				}
			}
		}()
	}
	if want("ChangeLeader") || want("electNewPartitionLeader") {
		run("change-leader")
	}
	if want("ShrinkISR") {
		run("shrink")
	}
	if want("ExpandISR") {
		run("expand")
	}
	if len(problems) > 0 {
		t.Fatalf("LBVC-REPRODUCED (obligation %s): %s", obl, strings.Join(problems, "; "))
	}
}
