package server

// Replay scenario for the leader-epoch boundary obligations (property C02): two fail-overs on a
// 3-replica partition in which the SECOND new leader learned the boundary of the epoch before it by
// replication, not by being elected.
//
//	epoch 1  leader A stores m0 m1 m2 (committed) and m3 (stored by A only), then stops
//	epoch 2  leader B stores n3 at offset 3; C replicates it (C learns "epoch 2" from the message)
//	epoch 3  B stops serving replication, C is elected; A restarts and reconciles its log with C
//
// Afterwards every replica must hold the same message at every offset at or below both high
// watermarks. The oracle reads the three real logs offset by offset.

import (
	"context"
	"fmt"
	"os"
	"testing"
	"time"

	lift "github.com/liftbridge-io/go-liftbridge/v2"
	natsdTest "github.com/nats-io/nats-server/v2/test"
)

func lbvcLogValues(s *Server, stream string) (vals []string, hw int64) {
	p := s.metadata.GetPartition(stream, 0)
	if p == nil {
		return nil, -1
	}
	hw = p.log.HighWatermark()
	newest := p.log.NewestOffset()
	if newest < 0 {
		return nil, hw
	}
	r, err := p.log.NewReader(0, true)
	if err != nil {
		return nil, hw
	}
	hb := make([]byte, 28)
	for {
		ctx, cancel := context.WithTimeout(context.Background(), 2*time.Second)
		m, off, _, _, err := r.ReadMessage(ctx, hb)
		cancel()
		if err != nil {
			break
		}
		for int64(len(vals)) < off {
			vals = append(vals, "<hole>")
		}
		vals = append(vals, string(m.Value()))
		if off >= newest {
			break
		}
	}
	return vals, hw
}

func TestLbvcScenarioEpochBoundary(t *testing.T) {
	defer cleanupStorage(t)
	ns := natsdTest.RunDefaultServer()
	defer ns.Shutdown()
	mk := func(id string, boot bool, port int) *Config {
		c := getTestConfig(id, boot, port)
		c.EmbeddedNATS = false
		c.Clustering.MinISR = 1
		c.Clustering.ReplicaMaxLeaderTimeout = time.Second
		c.Clustering.ReplicaMaxIdleWait = 500 * time.Millisecond
		c.Clustering.ReplicaFetchTimeout = 500 * time.Millisecond
		c.Clustering.ReplicaMaxLagTime = 2 * time.Second
		return c
	}
	cfgs := map[string]*Config{"a": mk("a", true, 5050), "b": mk("b", false, 5051), "c": mk("c", false, 5052)}
	srv := map[string]*Server{}
	for _, id := range []string{"a", "b", "c"} {
		srv[id] = runServerWithConfig(t, cfgs[id])
	}
	defer func() {
		for _, s := range srv {
			s.Stop()
		}
	}()
	all := []*Server{srv["a"], srv["b"], srv["c"]}
	getMetadataLeader(t, 10*time.Second, all...)
	client, err := lift.Connect([]string{"localhost:5050", "localhost:5051", "localhost:5052"})
	if err != nil {
		t.Skipf("setup failed: %v", err)
	}
	defer client.Close()
	name := "foo"
	cctx, ccancel := context.WithTimeout(context.Background(), 5*time.Second)
	err = client.CreateStream(cctx, name, name, lift.ReplicationFactor(3))
	ccancel()
	if err != nil {
		t.Skipf("setup failed: %v", err)
	}
	waitForPartition(t, 5*time.Second, name, 0, all...)
	pub := func(v string, opts ...lift.MessageOption) error {
		ctx, cancel := context.WithTimeout(context.Background(), 10*time.Second)
		defer cancel()
		_, err := client.Publish(ctx, name, []byte(v), opts...)
		return err
	}
	for _, v := range []string{"m0", "m1", "m2"} {
		if err := pub(v, lift.AckPolicyAll()); err != nil {
			t.Skipf("setup failed: publish %s: %v", v, err)
		}
	}
	waitForHW(t, 5*time.Second, name, 0, 2, all...)

	// epoch 1: the leader stores m3 that no follower receives, then stops
	A := getPartitionLeader(t, 10*time.Second, name, 0, all...)
	aID := A.config.Clustering.ServerID
	A.metadata.GetPartition(name, 0).pauseReplication()
	pub("m3", lift.AckPolicyNone())
	stored := false
	for i := 0; i < 100 && !stored; i++ {
		stored = A.metadata.GetPartition(name, 0).log.NewestOffset() == 3
		if !stored {
			time.Sleep(20 * time.Millisecond)
		}
	}
	if !stored {
		t.Skipf("setup failed: leader did not store m3")
	}
	A.Stop()
	var rest []*Server
	for id, s := range srv {
		if id != aID {
			rest = append(rest, s)
		}
	}

	// epoch 2: B leads, stores n3; C replicates it
	deadline := time.Now().Add(20 * time.Second)
	var B, C *Server
	for time.Now().Before(deadline) && B == nil {
		for _, s := range rest {
			p := s.metadata.GetPartition(name, 0)
			if l, _ := p.GetLeader(); l == s.config.Clustering.ServerID && l != aID {
				B = s
			}
		}
		time.Sleep(50 * time.Millisecond)
	}
	if B == nil {
		t.Skipf("setup failed: no second leader elected")
	}
	for _, s := range rest {
		if s != B {
			C = s
		}
	}
	waitForISR(t, 15*time.Second, name, 0, 2, rest...)
	if err := pub("n3", lift.AckPolicyAll()); err != nil {
		t.Skipf("setup failed: publish n3: %v", err)
	}
	waitForHW(t, 10*time.Second, name, 0, 3, rest...)

	// epoch 3: B stops serving replication; C (which learned epoch 2 from the replicated message) is elected
	B.metadata.GetPartition(name, 0).pauseReplication()
	deadline = time.Now().Add(20 * time.Second)
	elected := false
	for time.Now().Before(deadline) && !elected {
		l, _ := C.metadata.GetPartition(name, 0).GetLeader()
		elected = l == C.config.Clustering.ServerID
		time.Sleep(50 * time.Millisecond)
	}
	if !elected {
		t.Skipf("setup failed: third leader not elected")
	}

	// A restarts and reconciles its log with the leader C
	A = runServerWithConfig(t, cfgs[aID])
	srv[aID] = A
	waitForPartition(t, 10*time.Second, name, 0, A)
	if err := pub("n4", lift.AckPolicyAll()); err != nil {
		t.Logf("publish n4: %v", err)
	}
	all = []*Server{A, B, C}
	deadline = time.Now().Add(15 * time.Second)
	for time.Now().Before(deadline) {
		ok := true
		for _, s := range all {
			if p := s.metadata.GetPartition(name, 0); p == nil || p.log.HighWatermark() < 4 {
				ok = false
			}
		}
		if ok {
			break
		}
		time.Sleep(50 * time.Millisecond)
	}

	var problems []string
	type rep struct {
		id   string
		vals []string
		hw   int64
	}
	var reps []rep
	for _, s := range all {
		v, hw := lbvcLogValues(s, name)
		reps = append(reps, rep{s.config.Clustering.ServerID, v, hw})
	}
	for i := 0; i < len(reps); i++ {
		for j := i + 1; j < len(reps); j++ {
			x, y := reps[i], reps[j]
			for o := int64(0); o <= x.hw && o <= y.hw && o < int64(len(x.vals)) && o < int64(len(y.vals)); o++ {
				if x.vals[o] != y.vals[o] {
					problems = append(problems, fmt.Sprintf("after two fail-overs (old leader %s rejoined a leader that learned the epoch boundary by replication) replica %s holds %q at offset %d and replica %s holds %q; high watermarks %d and %d; logs %v and %v",
						aID, x.id, x.vals[o], o, y.id, y.vals[o], x.hw, y.hw, x.vals, y.vals))
					break
				}
			}
		}
	}
	// the committed messages are served by the last leader
	cv, _ := lbvcLogValues(C, name)
	for o, w := range []string{"m0", "m1", "m2", "n3"} {
		if o >= len(cv) || cv[o] != w {
			problems = append(problems, fmt.Sprintf("the last leader %s serves %v, the committed messages were m0 m1 m2 n3", C.config.Clustering.ServerID, cv))
			break
		}
	}
	if len(problems) > 0 {
		t.Fatalf("LBVC-REPRODUCED (obligation %s): %v", os.Getenv("LBVC_OBLIGATION"), problems)
	}
}
