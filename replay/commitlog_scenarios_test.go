package commitlog

// Replay scenarios for package commitlog. Each drives the REAL commit log through a family of
// states (empty log, after segment rolls, after truncation ...) and checks the property sentence
// directly with an independent oracle written here. A failed obligation selects the scenario;
// LBVC-REPRODUCED is printed only if the real code shows the property-level symptom.

import (
	"context"
	"fmt"
	"os"
	"strings"
	"testing"
	"time"

	"github.com/liftbridge-io/liftbridge/server/logger"
)

func lbvcLog(t *testing.T, opts Options) (*commitLog, func()) {
	dir, err := os.MkdirTemp("", "lbvc-log-")
	if err != nil {
		t.Skip(err)
	}
	opts.Path = dir
	l, err := New(opts)
	if err != nil {
		os.RemoveAll(dir)
		t.Skipf("cannot create log: %v", err)
	}
	return l.(*commitLog), func() { l.Close(); os.RemoveAll(dir) }
}

func lbvcMsg(i int, expected int64) *Message {
	return &Message{MagicByte: 1, Timestamp: int64(1000 + i), Key: []byte(fmt.Sprintf("k%d", i)), Value: []byte(fmt.Sprintf("value-%d", i)),
		Headers: map[string][]byte{"h": []byte("x")}, Offset: expected, AckInbox: "inbox", CorrelationID: fmt.Sprintf("c%d", i)}
}

func lbvcReadAll(t *testing.T, l *commitLog, from int64) []int64 {
	r, err := l.NewReader(from, true)
	if err != nil {
		return nil
	}
	var out []int64
	hb := make([]byte, 28)
	newest := l.NewestOffset()
	for newest >= 0 {
		ctx, cancel := context.WithTimeout(context.Background(), 2*time.Second)
		_, off, _, _, err := r.ReadMessage(ctx, hb)
		cancel()
		if err != nil {
			break
		}
		out = append(out, off)
		if off >= newest {
			break
		}
	}
	return out
}

// Offsets are consecutive across batches and segment rolls; readers see them in order.
func TestLbvcScenarioOffsets(t *testing.T) {
	var problems []string
	for _, segBytes := range []int64{64, 200, 1 << 20} {
		l, cleanup := lbvcLog(t, Options{MaxSegmentBytes: segBytes})
		next := int64(0)
		for b := 0; b < 7; b++ {
			n := 1 + b%3
			var msgs []*Message
			for i := 0; i < n; i++ {
				msgs = append(msgs, lbvcMsg(int(next)+i, 0))
			}
			offs, err := l.Append(msgs)
			if err != nil {
				problems = append(problems, fmt.Sprintf("append failed: %v", err))
				break
			}
			for i, o := range offs {
				if o != next+int64(i) {
					problems = append(problems, fmt.Sprintf("segment size %d: batch %d message %d got offset %d, expected %d", segBytes, b, i, o, next+int64(i)))
				}
			}
			next += int64(n)
			if l.NewestOffset() != next-1 {
				problems = append(problems, fmt.Sprintf("segment size %d: newest offset %d after %d messages", segBytes, l.NewestOffset(), next))
			}
		}
		got := lbvcReadAll(t, l, 0)
		for i, o := range got {
			if o != int64(i) {
				problems = append(problems, fmt.Sprintf("segment size %d: reader from 0 returned %v", segBytes, got))
				break
			}
		}
		if int64(len(got)) != next {
			problems = append(problems, fmt.Sprintf("segment size %d: reader returned %d of %d messages", segBytes, len(got), next))
		}
		cleanup()
	}
	// a follower log fed with replicated message sets (AppendMessageSet), several messages per set, across segment
	// rolls: every offset is found by a reader started AT it (point lookup through the index), and a truncation in
	// the middle keeps exactly the prefix
	for _, segBytes := range []int64{100, 300, 500, 1 << 20} {
		src, cleanupSrc := lbvcLog(t, Options{MaxSegmentBytes: 1 << 20})
		dst, cleanupDst := lbvcLog(t, Options{MaxSegmentBytes: segBytes})
		total := 0
		for b := 0; b < 6; b++ {
			n := 1 + b%3
			var msgs []*Message
			for i := 0; i < n; i++ {
				msgs = append(msgs, lbvcMsg(total+i, 0))
			}
			seg := src.activeSegment()
			from := seg.Position()
			if _, err := src.Append(msgs); err != nil {
				break
			}
			raw := make([]byte, seg.Position()-from)
			if _, err := seg.ReadAt(raw, from); err != nil {
				problems = append(problems, "cannot read back the source message set: "+err.Error())
				break
			}
			if _, err := dst.AppendMessageSet(raw); err != nil {
				problems = append(problems, fmt.Sprintf("AppendMessageSet failed: %v", err))
				break
			}
			total += n
		}
		desc := fmt.Sprintf("replicated log, segment bytes %d, %d messages in sets of 1-3", segBytes, total)
		for start := 0; start < total; start++ {
			offs, vals := lbvcReadFwd(dst, int64(start), 2)
			if len(offs) == 0 || offs[0] != int64(start) || vals[0] != fmt.Sprintf("k%d=value-%d", start, start) {
				problems = append(problems, fmt.Sprintf("%s: a reader started at offset %d gets %v %v", desc, start, offs, vals))
				break
			}
		}
		if total > 4 {
			cut := int64(total - 2)
			if err := dst.Truncate(cut); err != nil {
				problems = append(problems, desc+": Truncate: "+err.Error())
			} else if got := lbvcReadAll(t, dst, 0); int64(len(got)) != cut {
				problems = append(problems, fmt.Sprintf("%s: after Truncate(%d) the log reads %v", desc, cut, got))
			}
		}
		cleanupSrc()
		cleanupDst()
	}
	if len(problems) > 0 {
		t.Fatalf("LBVC-REPRODUCED (obligation %s): %s", os.Getenv("LBVC_OBLIGATION"), strings.Join(problems, "; "))
	}
}

// Conditional publish: stored iff assigned the expected offset; otherwise ErrIncorrectOffset and an unchanged log.
func TestLbvcScenarioConditionalAppend(t *testing.T) {
	var problems []string
	for _, segBytes := range []int64{64, 1 << 20} {
		l, cleanup := lbvcLog(t, Options{MaxSegmentBytes: segBytes, ConcurrencyControl: true})
		for step := 0; step < 9; step++ {
			next := l.NewestOffset() + 1
			for _, exp := range []int64{next + 1, next - 1, next + 7, 0} {
				if exp == next || exp == -1 {
					continue
				}
				before := l.NewestOffset()
				_, err := l.Append([]*Message{lbvcMsg(step, exp)})
				if err != ErrIncorrectOffset {
					problems = append(problems, fmt.Sprintf("expected offset %d with next offset %d: err = %v", exp, next, err))
				}
				if l.NewestOffset() != before {
					problems = append(problems, fmt.Sprintf("refused conditional publish changed the log (newest %d -> %d)", before, l.NewestOffset()))
				}
			}
			exp := next
			if step%3 == 2 {
				exp = -1
			}
			offs, err := l.Append([]*Message{lbvcMsg(step, exp)})
			if err != nil || len(offs) != 1 || offs[0] != next {
				problems = append(problems, fmt.Sprintf("expected offset %d with next offset %d: offsets %v err %v", exp, next, offs, err))
			}
			// a second racer with the same expectation must lose
			if exp != -1 {
				if _, err := l.Append([]*Message{lbvcMsg(step, exp)}); err != ErrIncorrectOffset {
					problems = append(problems, fmt.Sprintf("two publishers with expected offset %d both succeeded", exp))
				}
			}
		}
		cleanup()
	}
	if len(problems) > 0 {
		t.Fatalf("LBVC-REPRODUCED (obligation %s): %s", os.Getenv("LBVC_OBLIGATION"), strings.Join(problems, "; "))
	}
}

// Retention: only a prefix of whole segments is removed, never the newest, no more than needed, limits hold afterwards.
func TestLbvcScenarioRetention(t *testing.T) {
	var problems []string
	type layout struct {
		counts []int
		times  []int64
	}
	layouts := []layout{
		{[]int{1, 1, 1, 1}, nil}, {[]int{3, 3, 1}, nil}, {[]int{10, 3}, nil}, {[]int{4, 2, 2}, nil}, {[]int{6, 6, 0}, nil}, {[]int{2, 5, 1, 1}, nil}, {[]int{1}, nil},
		{[]int{1, 1, 1, 1}, []int64{150, 50, 160, 170}}, {[]int{1, 1, 1}, []int64{10, 20, 30}}, {[]int{2, 2, 2}, []int64{90, 110, 120}},
	}
	for li, lay := range layouts {
		for _, limit := range []int64{1, 2, 3, 5, 6, 100} {
			for _, mode := range []string{"messages", "bytes", "age"} {
				if (mode == "age") != (lay.times != nil) {
					continue
				}
				dir, err := os.MkdirTemp("", "lbvc-ret-")
				if err != nil {
					t.Skip(err)
				}
				var segs []*segment
				base := int64(0)
				ok := true
				for si, n := range lay.counts {
					s, err := newSegment(dir, base, 1<<20, true, "")
					if err != nil {
						ok = false
						break
					}
					for i := 0; i < n; i++ {
						ms, entries, err := newMessageSetFromProto(base, s.Position(), []*Message{lbvcMsg(int(base), 0)}, false)
						if err != nil || s.WriteMessageSet(ms, entries) != nil {
							ok = false
						}
						base++
					}
					if lay.times != nil {
						s.lastWriteTime = lay.times[si]
					}
					segs = append(segs, s)
				}
				if !ok {
					os.RemoveAll(dir)
					continue
				}
				var opts deleteCleanerOptions
				opts.Name = "lbvc"
				opts.Logger = noopLogger()
				var size = func(s *segment) int64 { return s.MessageCount() }
				switch mode {
				case "messages":
					opts.Retention.Messages = limit
				case "bytes":
					opts.Retention.Bytes = limit * segs[0].Position() / int64(maxInt(lay.counts[0], 1))
					if opts.Retention.Bytes == 0 {
						opts.Retention.Bytes = 1
					}
					size = func(s *segment) int64 { return s.Position() }
				case "age":
					opts.Retention.Age = time.Hour
				}
				lim := opts.Retention.Messages
				if mode == "bytes" {
					lim = opts.Retention.Bytes
				}
				sizes := make([]int64, len(segs))
				for i, s := range segs {
					sizes[i] = size(s)
				}
				saved := computeTTL
				computeTTL = func(time.Duration) int64 { return 100 }
				out, err := newDeleteCleaner(opts).Clean(append([]*segment{}, segs...))
				computeTTL = saved
				if err != nil {
					os.RemoveAll(dir)
					continue
				}
				k := len(segs) - len(out)
				desc := fmt.Sprintf("layout %d %v times %v, %s limit %d", li, lay.counts, lay.times, mode, lim)
				if len(out) < 1 || k < 0 {
					problems = append(problems, desc+": newest segment removed or result longer than input")
				} else {
					for i, s := range out {
						if s != segs[k+i] {
							problems = append(problems, desc+": result is not a suffix of the input")
							break
						}
					}
					for i, s := range segs {
						if (i < k) != s.IsDeleted() {
							problems = append(problems, desc+fmt.Sprintf(": segment %d deleted=%v but %d segments were dropped", i, s.IsDeleted(), k))
						}
					}
					if mode != "age" {
						var kept int64
						for _, x := range sizes[k:] {
							kept += x
						}
						if kept > lim && len(out) > 1 {
							problems = append(problems, desc+fmt.Sprintf(": %d segments survive with total %d over the limit", len(out), kept))
						}
						if k > 0 && kept+sizes[k-1] <= lim {
							problems = append(problems, desc+": a segment was removed although keeping it would not exceed the limit")
						}
					} else {
						for i := 0; i < k; i++ {
							if lay.times[i] >= 100 {
								problems = append(problems, desc+": a segment that had not expired was removed")
							}
						}
						if len(out) > 1 && lay.times[k] < 100 {
							problems = append(problems, desc+": an expired oldest segment was kept")
						}
					}
				}
				for _, s := range segs {
					s.Close()
				}
				os.RemoveAll(dir)
			}
		}
	}
	// an age limit combined with a message limit, last-write times not monotonic: afterwards the oldest survivor must
	// not be an expired segment (unless it is the newest one)
	for _, c := range []struct {
		times []int64
		msgs  int64
	}{{[]int64{5, 150, 20, 160}, 2}, {[]int64{5, 150, 20, 30, 160}, 3}, {[]int64{150, 20, 160}, 2}, {[]int64{5, 6, 150, 160}, 3}} {
		dir, err := os.MkdirTemp("", "lbvc-ret2-")
		if err != nil {
			t.Skip(err)
		}
		var segs []*segment
		for i, ts := range c.times {
			sg, err := newSegment(dir, int64(i), 1<<20, true, "")
			if err != nil {
				t.Skip(err)
			}
			ms, entries, _ := newMessageSetFromProto(int64(i), 0, []*Message{lbvcMsg(i, 0)}, false)
			sg.WriteMessageSet(ms, entries)
			sg.lastWriteTime = ts
			segs = append(segs, sg)
		}
		var opts deleteCleanerOptions
		opts.Name, opts.Logger = "lbvc", noopLogger()
		opts.Retention.Age, opts.Retention.Messages = time.Hour, c.msgs
		saved := computeTTL
		computeTTL = func(time.Duration) int64 { return 100 }
		out, err := newDeleteCleaner(opts).Clean(append([]*segment{}, segs...))
		computeTTL = saved
		if err == nil && len(out) >= 2 && out[0].lastWriteTime < 100 {
			problems = append(problems, fmt.Sprintf("last-write times %v, cut-off 100, message limit %d: after one clean the oldest surviving segment (offset %d, last write %d) has expired and is not the newest - the age limit does not hold",
				c.times, c.msgs, out[0].BaseOffset, out[0].lastWriteTime))
		}
		if err == nil {
			var n int64
			for _, sg := range out {
				n += sg.MessageCount()
			}
			if n > c.msgs && len(out) > 1 {
				problems = append(problems, fmt.Sprintf("last-write times %v, message limit %d: %d messages survive", c.times, c.msgs, n))
			}
		}
		for _, sg := range segs {
			sg.Close()
		}
		os.RemoveAll(dir)
	}
	lbvcScenarioTail(t, problems)
}

// Retention on the whole log: (a) a clean during which further segments are appended (the appends are injected
// through computeTTL, which the age pass calls in the middle of the clean with the log unlocked): every segment
// appended meanwhile is still in the log, behind the cleaned ones; (b) several limits at once: afterwards every limit
// holds (unless only the newest segment is left), the survivors are a contiguous suffix and read back from the
// oldest offset.
func lbvcFresh(i int) *Message {
	m := lbvcMsg(i, 0)
	m.Timestamp = time.Now().UnixNano()
	return m
}

func TestLbvcScenarioRetentionOnLog(t *testing.T) {
	var problems []string
	checkLog := func(desc string, l *commitLog, wantOldest, wantNewest int64) {
		segs := l.Segments()
		if l.NewestOffset() != wantNewest {
			problems = append(problems, fmt.Sprintf("%s: newest offset %d, expected %d", desc, l.NewestOffset(), wantNewest))
		}
		if wantOldest >= 0 && l.OldestOffset() != wantOldest {
			problems = append(problems, fmt.Sprintf("%s: oldest offset %d, expected %d", desc, l.OldestOffset(), wantOldest))
		}
		if segs[len(segs)-1] != l.activeSegment() {
			problems = append(problems, desc+": the last segment of the log is not the active segment")
		}
		for i := 1; i < len(segs); i++ {
			if segs[i-1].NextOffset() != segs[i].BaseOffset {
				problems = append(problems, fmt.Sprintf("%s: hole in the log between the segments at %d and %d (segments %d)", desc, segs[i-1].BaseOffset, segs[i].BaseOffset, len(segs)))
				return
			}
		}
		offs, _ := lbvcReadFwd(l, l.OldestOffset(), int(wantNewest)+3)
		var want []int64
		for o := l.OldestOffset(); o <= wantNewest; o++ {
			want = append(want, o)
		}
		if fmt.Sprint(offs) != fmt.Sprint(want) {
			problems = append(problems, fmt.Sprintf("%s: reading from the oldest offset returns %v, the log holds %v", desc, offs, want))
		}
	}
	for _, c := range []struct{ before, during int; maxMsgs int64 }{{3, 2, 0}, {6, 3, 4}, {4, 1, 2}, {5, 4, 0}} {
		l, cleanup := lbvcLog(t, Options{MaxSegmentBytes: 6, MaxLogAge: time.Hour, MaxLogMessages: c.maxMsgs})
		for i := 0; i < c.before; i++ {
			l.Append([]*Message{lbvcFresh(i)})
		}
		saved := computeTTL
		injected := false
		computeTTL = func(age time.Duration) int64 {
			if !injected {
				injected = true
				for i := c.before; i < c.before+c.during; i++ {
					l.Append([]*Message{lbvcFresh(i)})
				}
			}
			return saved(age)
		}
		err := l.Clean()
		computeTTL = saved
		desc := fmt.Sprintf("%d segments of one message, message limit %d, %d segments appended while the clean runs", c.before, c.maxMsgs, c.during)
		if err != nil {
			problems = append(problems, desc+": "+err.Error())
		} else {
			oldest := int64(0)
			if c.maxMsgs > 0 && int64(c.before) > c.maxMsgs {
				oldest = int64(c.before) - c.maxMsgs
			}
			checkLog(desc, l, oldest, int64(c.before+c.during-1))
			if n := len(l.Segments()); n != c.before+c.during-int(oldest) {
				problems = append(problems, fmt.Sprintf("%s: %d segments afterwards, expected %d", desc, n, c.before+c.during-int(oldest)))
			}
		}
		cleanup()
	}
	// several limits at once
	for _, c := range []struct{ msgs, bytesSegs int64 }{{5, 1000}, {1000, 5}, {3, 8}, {8, 3}} {
		l, cleanup := lbvcLog(t, Options{MaxSegmentBytes: 6, MaxLogMessages: c.msgs})
		for i := 0; i < 15; i++ {
			l.Append([]*Message{lbvcFresh(i)})
		}
		segsBefore := l.Segments()
		byteLimit := c.bytesSegs * segsBefore[0].Position()
		l.deleteCleaner.Retention.Bytes = byteLimit
		// independent oracle: the longest suffix within both limits, never less than the newest segment
		keep, total := int64(0), int64(0)
		for i := len(segsBefore) - 1; i >= 0; i-- {
			total += segsBefore[i].Position()
			if keep >= 1 && (total > byteLimit || keep+1 > c.msgs) {
				break
			}
			keep++
		}
		desc := fmt.Sprintf("15 segments of one message, message limit %d and byte limit %d (about %d segments)", c.msgs, byteLimit, c.bytesSegs)
		if err := l.Clean(); err != nil {
			problems = append(problems, desc+": "+err.Error())
		} else {
			checkLog(desc, l, 15-keep, 14)
			if n := int64(len(l.Segments())); n != keep {
				problems = append(problems, fmt.Sprintf("%s: %d segments survive, the limits allow exactly %d", desc, n, keep))
			}
		}
		cleanup()
	}
	// the age limit measures a segment's LAST write, on the live log as on a reopened one: segments of two messages with
	// given timestamps (they may step back inside a segment: reception times of two leaders), cut-off 50
	for _, ts := range [][]int64{{100, 10, 100, 100}, {10, 100, 100, 100}, {10, 20, 30, 100, 100, 100}, {100, 10, 10, 100, 100, 100}, {60, 40, 40, 60, 100, 100}} {
		for _, reopen := range []bool{false, true} {
			dir, err := os.MkdirTemp("", "lbvc-age-")
			if err != nil {
				t.Skip(err)
			}
			size := int64(0)
			{
				probe, cl := lbvcLog(t, Options{MaxSegmentBytes: 1 << 20})
				m := lbvcMsg(0, 0)
				probe.Append([]*Message{m})
				size = probe.activeSegment().Position()
				cl()
			}
			open := func() *commitLog {
				l, err := New(Options{Path: dir, MaxSegmentBytes: 2 * size, MaxLogAge: time.Hour})
				if err != nil {
					t.Skipf("cannot create log: %v", err)
				}
				return l.(*commitLog)
			}
			l := open()
			for i, x := range ts {
				m := lbvcMsg(0, 0)
				m.Timestamp = x
				m.Key, m.Value = []byte("k0"), []byte(fmt.Sprintf("value-%d", i%10))
				l.Append([]*Message{m})
			}
			if reopen {
				l.Close()
				l = open()
			}
			segs := l.Segments()
			// oracle: drop the maximal prefix of segments whose last message is older than the cut-off, never the newest
			wantOldest := int64(0)
			for i := 0; i+1 < len(segs); i++ {
				lastTs := ts[segs[i+1].BaseOffset-1]
				if lastTs >= 50 {
					break
				}
				wantOldest = segs[i+1].BaseOffset
			}
			saved := computeTTL
			computeTTL = func(time.Duration) int64 { return 50 }
			err = l.Clean()
			computeTTL = saved
			desc := fmt.Sprintf("message timestamps %v in segments of two, age cut-off 50, log %s", ts, map[bool]string{false: "as written by this process", true: "closed and reopened before the clean"}[reopen])
			if err != nil {
				problems = append(problems, desc+": "+err.Error())
			} else if got := l.OldestOffset(); got != wantOldest {
				problems = append(problems, fmt.Sprintf("%s: oldest offset %d afterwards; going by each segment's last write the expired prefix ends at %d", desc, got, wantOldest))
			}
			l.Close()
			os.RemoveAll(dir)
		}
	}
	lbvcScenarioTail(t, problems)
}

func maxInt(a, b int) int {
	if a > b {
		return a
	}
	return b
}

func lbvcReadFwd(l *commitLog, from int64, max int) (offs []int64, vals []string) {
	r, err := l.NewReader(from, true)
	if err != nil {
		return nil, nil
	}
	hb := make([]byte, 28)
	newest := l.NewestOffset()
	for i := 0; i < max && from <= newest; i++ {
		ctx, cancel := context.WithTimeout(context.Background(), 150*time.Millisecond)
		m, off, _, _, err := r.ReadMessage(ctx, hb)
		cancel()
		if err != nil {
			break
		}
		offs = append(offs, off)
		vals = append(vals, string(m.Key())+"="+string(m.Value()))
		if off >= newest {
			break
		}
	}
	return
}

func lbvcReadRev(l *commitLog, from int64) (offs []int64) {
	r, err := l.NewReverseReader(from, true)
	if err != nil {
		return nil
	}
	hb := make([]byte, 28)
	for i := 0; i < 1000; i++ {
		_, off, _, _, err := r.ReadMessage(context.Background(), hb)
		if err != nil {
			break
		}
		offs = append(offs, off)
	}
	return
}

// Compaction: survivors = no key, latest committed for the key, at/above the HW, or in the newest segment; each survivor
// unchanged at its offset; forward and reverse readers from any offset return exactly the survivors.
func TestLbvcScenarioCompaction(t *testing.T) {
	var problems []string
	type kv struct{ k, v string }
	mk := func(keys string) []kv {
		var out []kv
		for i, f := range strings.Fields(keys) {
			out = append(out, kv{f, fmt.Sprintf("v%d", i)})
		}
		return out
	}
	layouts := [][]kv{
		mk("foo bar foo foo bar baz baz qux foo baz"),
		mk("a a a a a a a a"),
		mk("a b c d e f g h"),
		mk("- a - a - b b -"),
		mk("a b a b a b a b a b a b"),
		mk("x y z x y z q q q x"),
		// "=" is an EMPTY (non-nil) key: a key like any other, distinct from "no key"
		mk("= - - a - a -"),
		mk("= a = - = b -"),
	}
	for li, lay := range layouts {
		for _, segBytes := range []int64{60, 100, 150, 400} {
			for _, hwBack := range []int{0, 1, 3} {
				l, cleanup := lbvcLog(t, Options{MaxSegmentBytes: segBytes, Compact: true})
				var all []kv
				for _, e := range lay {
					var key []byte
					if e.k == "=" {
						key = []byte{}
					} else if e.k != "-" {
						key = []byte(e.k)
					}
					if _, err := l.Append([]*Message{{Key: key, Value: []byte(e.v), Timestamp: 1}}); err != nil {
						problems = append(problems, "append failed: "+err.Error())
					}
					all = append(all, e)
				}
				hw := int64(len(all) - 1 - hwBack)
				l.SetHighWatermark(hw)
				segs := l.Segments()
				newestBase := segs[len(segs)-1].BaseOffset
				nseg := len(segs)
				// oracle
				latest := map[string]int64{}
				for i, e := range all {
					if e.k != "-" && int64(i) <= hw {
						latest[e.k] = int64(i)
					}
				}
				var want []int64
				wantVal := map[int64]string{}
				for i, e := range all {
					o := int64(i)
					if e.k == "-" || o >= hw || o >= newestBase || latest[e.k] == o {
						want = append(want, o)
						k := e.k
						if k == "-" || k == "=" {
							k = ""
						}
						wantVal[o] = k + "=" + e.v
					}
				}
				desc := fmt.Sprintf("layout %d, segment bytes %d (%d segments), hw %d", li, segBytes, nseg, hw)
				// forward readers opened BEFORE the clean, each having consumed k messages: after the clean they go on with
				// the survivors behind their position (a reader sitting in a segment that is replaced or dropped is
				// positioned anew)
				type early struct {
					r         *Reader
					last      int64
					k         int
					committed bool
				}
				var earlies []early
				for _, committed := range []bool{false, true} {
					for k := 0; k <= 3 && k < len(all); k++ {
						r, err := l.NewReader(0, !committed)
						if err != nil {
							continue
						}
						e := early{r: r, last: -1, k: k, committed: committed}
						hb := make([]byte, 28)
						for j := 0; j < k; j++ {
							ctx, cancel := context.WithTimeout(context.Background(), 150*time.Millisecond)
							_, off, _, _, err := r.ReadMessage(ctx, hb)
							cancel()
							if err != nil {
								break
							}
							e.last = off
						}
						earlies = append(earlies, e)
					}
				}
				if err := l.Clean(); err != nil {
					problems = append(problems, "clean failed: "+err.Error())
					cleanup()
					continue
				}
				for _, e := range earlies {
					var exp, gotE []int64
					for _, w := range want {
						if w > e.last && (!e.committed || w <= hw) {
							exp = append(exp, w)
						}
					}
					hb := make([]byte, 28)
					var rerr error
					for len(gotE) < len(exp) {
						ctx, cancel := context.WithTimeout(context.Background(), 150*time.Millisecond)
						_, off, _, _, err := e.r.ReadMessage(ctx, hb)
						cancel()
						if err != nil {
							rerr = err
							break
						}
						gotE = append(gotE, off)
					}
					if fmt.Sprint(gotE) != fmt.Sprint(exp) {
						kind := "uncommitted"
						if e.committed {
							kind = "committed"
						}
						problems = append(problems, desc+fmt.Sprintf(": a forward reader (%s) opened before the clean that had consumed %d messages (last offset %d) goes on with %v (error %v); the survivors behind it are %v", kind, e.k, e.last, gotE, rerr, exp))
					}
				}
				got, vals := lbvcReadFwd(l, 0, len(all)+2)
				missing := false
				for _, w := range want {
					found := false
					for gi, g := range got {
						if g == w {
							found = true
							if vals[gi] != wantVal[w] {
								problems = append(problems, desc+fmt.Sprintf(": offset %d reads %q after compaction, was %q", w, vals[gi], wantVal[w]))
							}
						}
					}
					if !found {
						missing = true
						problems = append(problems, desc+fmt.Sprintf(": offset %d must survive compaction but is gone (read back %v)", w, got))
					}
				}
				for i := 1; i < len(got); i++ {
					if got[i] <= got[i-1] {
						problems = append(problems, desc+fmt.Sprintf(": forward read out of order %v", got))
						break
					}
				}
				if !missing {
					// readers from every offset see exactly the messages present (got), forwards and backwards
					for start := int64(0); start < int64(len(all)); start++ {
						var expF, expR []int64
						for _, g := range got {
							if g >= start {
								expF = append(expF, g)
							}
						}
						for i := len(got) - 1; i >= 0; i-- {
							if got[i] <= start {
								expR = append(expR, got[i])
							}
						}
						f, _ := lbvcReadFwd(l, start, len(all)+2)
						if fmt.Sprint(f) != fmt.Sprint(expF) {
							problems = append(problems, desc+fmt.Sprintf(": forward reader from %d returned %v, present are %v", start, f, expF))
						}
						r := lbvcReadRev(l, start)
						if fmt.Sprint(r) != fmt.Sprint(expR) {
							problems = append(problems, desc+fmt.Sprintf(": reverse reader from %d returned %v, present at or below it are %v", start, r, expR))
						}
					}
				}
				cleanup()
			}
		}
	}
	lbvcScenarioTail(t, problems)
}

// High watermark: never moves backwards; a committed reader is never handed an offset above it, and gets every
// committed message once and in order - also when it was parked beyond the watermark and the watermark then jumps
// over a segment roll.
func TestLbvcScenarioHighWatermark(t *testing.T) {
	var problems []string
	for _, segBytes := range []int64{64, 150, 1 << 20} {
		for _, park := range []bool{false, true} {
			l, cleanup := lbvcLog(t, Options{MaxSegmentBytes: segBytes})
			desc := fmt.Sprintf("segment bytes %d, reader parked beyond the watermark %v", segBytes, park)
			for i := 0; i < 3; i++ {
				l.Append([]*Message{lbvcMsg(i, 0)})
			}
			l.SetHighWatermark(1)
			start := int64(0)
			if park {
				start = 2
			}
			r, err := l.NewReader(start, false)
			if err != nil {
				problems = append(problems, desc+": NewReader: "+err.Error())
				cleanup()
				continue
			}
			var got []int64
			hb := make([]byte, 28)
			read := func(upTo int64) {
				for {
					if len(got) > 0 && got[len(got)-1] >= upTo {
						return
					}
					if len(got) == 0 && upTo < start {
						return
					}
					ctx, cancel := context.WithTimeout(context.Background(), 300*time.Millisecond)
					_, off, _, _, err := r.ReadMessage(ctx, hb)
					cancel()
					if err != nil {
						return
					}
					if hw := l.HighWatermark(); off > hw {
						problems = append(problems, desc+fmt.Sprintf(": committed reader was handed offset %d while the high watermark is %d", off, hw))
					}
					got = append(got, off)
				}
			}
			read(1)
			if !park {
				// the reader now sits at the watermark (with small segments: at the very end of a sealed segment);
				// one more read must wait, not move on into uncommitted data
				ctx, cancel := context.WithTimeout(context.Background(), 150*time.Millisecond)
				if _, off, _, _, err := r.ReadMessage(ctx, hb); err == nil {
					if hw := l.HighWatermark(); off > hw {
						problems = append(problems, desc+fmt.Sprintf(": a committed reader positioned at the watermark %d was handed offset %d", hw, off))
					}
					got = append(got, off)
				}
				cancel()
			}
			for i := 3; i < 12; i++ {
				l.Append([]*Message{lbvcMsg(i, 0)})
			}
			// stale and repeated updates must not lower the watermark
			for _, hw := range []int64{9, 6, 9, 0, 11} {
				before := l.HighWatermark()
				l.SetHighWatermark(hw)
				if after := l.HighWatermark(); after < before {
					problems = append(problems, desc+fmt.Sprintf(": high watermark moved backwards %d -> %d (SetHighWatermark(%d))", before, after, hw))
				}
			}
			read(11)
			var want []int64
			for o := start; o <= 11; o++ {
				want = append(want, o)
			}
			if fmt.Sprint(got) != fmt.Sprint(want) {
				problems = append(problems, desc+fmt.Sprintf(": committed reader from %d returned %v, committed are %v", start, got, want))
			}
			cleanup()
		}
	}
	// retention may trim the log past a watermark that does not advance (for example while the ISR is below its
	// minimum): a committed reader must still not be handed anything above the watermark
	for _, segBytes := range []int64{64, 150} {
		l, cleanup := lbvcLog(t, Options{MaxSegmentBytes: segBytes, MaxLogMessages: 2})
		for i := 0; i < 6; i++ {
			l.Append([]*Message{lbvcMsg(i, 0)})
		}
		l.SetHighWatermark(1)
		if err := l.Clean(); err == nil && l.OldestOffset() > 1 {
			if r, err := l.NewReader(0, false); err == nil {
				hb := make([]byte, 28)
				for i := 0; i < 3; i++ {
					ctx, cancel := context.WithTimeout(context.Background(), 150*time.Millisecond)
					_, off, _, _, err := r.ReadMessage(ctx, hb)
					cancel()
					if err != nil {
						break
					}
					if hw := l.HighWatermark(); off > hw {
						problems = append(problems, fmt.Sprintf("segment bytes %d, retention trimmed the log to [%d..%d] while the high watermark is %d: committed reader was handed offset %d", segBytes, l.OldestOffset(), l.NewestOffset(), hw, off))
						break
					}
				}
			}
		}
		cleanup()
	}
	// a follower adopts the leader's watermark before it has the data: the watermark may be ahead of the log end,
	// and must still never be lowered
	{
		l, cleanup := lbvcLog(t, Options{MaxSegmentBytes: 1 << 20})
		for i := 0; i < 4; i++ {
			l.Append([]*Message{lbvcMsg(i, 0)})
		}
		for _, hw := range []int64{2, 9, 6, 3, 9, 12, 5} {
			before := l.HighWatermark()
			l.SetHighWatermark(hw)
			if after := l.HighWatermark(); after < before {
				problems = append(problems, fmt.Sprintf("log end 3: high watermark moved backwards %d -> %d (SetHighWatermark(%d))", before, after, hw))
			}
		}
		cleanup()
	}
	// the watermark a follower adopts from its leader can be ahead of the follower's own log: a committed reader parked
	// at the end of the log when that happens must, once the data arrives, deliver the next message or fail - it must
	// not crash the process and must not hand out anything else
	for _, segBytes := range []int64{150, 1 << 20} {
		l, cleanup := lbvcLog(t, Options{MaxSegmentBytes: segBytes})
		for i := 0; i < 3; i++ {
			l.Append([]*Message{lbvcMsg(i, 0)})
		}
		l.SetHighWatermark(2)
		desc := fmt.Sprintf("segment bytes %d, 3 messages committed, reader parked at the end, watermark set to 5 (beyond the log end), then messages 3..6 appended", segBytes)
		if r, err := l.NewReader(0, false); err == nil {
			hb := make([]byte, 28)
			okSoFar := true
			for i := 0; i < 3 && okSoFar; i++ {
				ctx, cancel := context.WithTimeout(context.Background(), time.Second)
				_, off, _, _, err := r.ReadMessage(ctx, hb)
				cancel()
				okSoFar = err == nil && off == int64(i)
			}
			if okSoFar {
				result := make(chan string, 1)
				go func() {
					defer func() {
						if p := recover(); p != nil {
							result <- fmt.Sprintf("the reader panicked: %v", p)
						}
					}()
					ctx, cancel := context.WithTimeout(context.Background(), 3*time.Second)
					defer cancel()
					m, off, _, _, err := r.ReadMessage(ctx, hb)
					if err != nil {
						result <- ""
						return
					}
					if off != 3 || string(m.Value()) != "value-3" {
						result <- fmt.Sprintf("the reader was handed offset %d value %q, the next committed message is offset 3 value \"value-3\"", off, lbvcShort(string(m.Value())))
						return
					}
					result <- ""
				}()
				time.Sleep(150 * time.Millisecond)
				l.SetHighWatermark(5)
				time.Sleep(150 * time.Millisecond)
				for i := 3; i < 7; i++ {
					l.Append([]*Message{lbvcMsg(i, 0)})
				}
				l.SetHighWatermark(6)
				select {
				case res := <-result:
					if res != "" {
						problems = append(problems, desc+": "+res)
					}
				case <-time.After(5 * time.Second):
				}
			}
		}
		cleanup()
	}
	lbvcScenarioTail(t, problems)
}

// A committed reader asked to start INSIDE the uncommitted tail of the log (high watermark < start <= newest offset: a
// leader whose followers lag behind) delivers the messages from its start offset on, once they are committed - not the
// messages before the start offset that happened to be committed after the reader was created (C10: "exactly the
// committed messages ... in the requested range"). A start beyond the end of the log is capped: the reader gets the
// next committed message (TestReaderCommittedCapOffset pins that).
func TestLbvcScenarioStartInUncommittedTail(t *testing.T) {
	var problems []string
	for _, segBytes := range []int64{100, 1 << 20} {
		for _, c := range []struct{ n, hw0, start int64; steps []int64 }{
			{10, 4, 8, []int64{9}},
			{10, 4, 8, []int64{6, 9}},
			{10, 4, 7, []int64{5, 6, 7, 9}},
			{10, -1, 3, []int64{1, 9}},
			{6, 2, 5, []int64{5}},
		} {
			l, cleanup := lbvcLog(t, Options{MaxSegmentBytes: segBytes})
			for i := int64(0); i < c.n; i++ {
				l.Append([]*Message{lbvcMsg(int(i), 0)})
			}
			if c.hw0 >= 0 {
				l.SetHighWatermark(c.hw0)
			}
			desc := fmt.Sprintf("segment bytes %d, log 0..%d, high watermark %d, committed reader started at %d, then the watermark moves to %v", segBytes, c.n-1, c.hw0, c.start, c.steps)
			r, err := l.NewReader(c.start, false)
			if err != nil {
				problems = append(problems, desc+": NewReader: "+err.Error())
				cleanup()
				continue
			}
			var got []int64
			hb := make([]byte, 28)
			for _, hw := range c.steps {
				l.SetHighWatermark(hw)
				for {
					ctx, cancel := context.WithTimeout(context.Background(), 200*time.Millisecond)
					_, off, _, _, err := r.ReadMessage(ctx, hb)
					cancel()
					if err != nil {
						break
					}
					got = append(got, off)
					if off > hw {
						problems = append(problems, desc+fmt.Sprintf(": the reader was handed offset %d while the high watermark is %d", off, hw))
					}
				}
			}
			var want []int64
			for o := c.start; o <= c.steps[len(c.steps)-1]; o++ {
				want = append(want, o)
			}
			if fmt.Sprint(got) != fmt.Sprint(want) {
				problems = append(problems, desc+fmt.Sprintf(": delivered %v, the committed messages from the start offset on are %v", got, want))
			}
			cleanup()
		}
	}
	// a reader started at the log's NEXT offset (a new-only subscription) while the watermark lags: the older messages
	// that become committed later are not for it
	{
		l, cleanup := lbvcLog(t, Options{MaxSegmentBytes: 100})
		for i := 0; i < 6; i++ {
			l.Append([]*Message{lbvcMsg(i, 0)})
		}
		l.SetHighWatermark(2)
		if r, err := l.NewReader(6, false); err == nil {
			hb := make([]byte, 28)
			var got []int64
			rd := func() {
				for {
					ctx, cancel := context.WithTimeout(context.Background(), 200*time.Millisecond)
					_, off, _, _, err := r.ReadMessage(ctx, hb)
					cancel()
					if err != nil {
						return
					}
					got = append(got, off)
				}
			}
			l.SetHighWatermark(5)
			rd()
			l.Append([]*Message{lbvcMsg(6, 0)})
			l.Append([]*Message{lbvcMsg(7, 0)})
			l.SetHighWatermark(7)
			rd()
			if fmt.Sprint(got) != "[6 7]" {
				problems = append(problems, fmt.Sprintf("log 0..5, high watermark 2, committed reader started at the next offset 6; watermark to 5, two more messages, watermark to 7: delivered %v, the messages from the start offset on are [6 7]", got))
			}
		}
		cleanup()
	}
	lbvcScenarioTail(t, problems)
}

func lbvcScenarioTail(t *testing.T, problems []string) {
	if len(problems) > 0 {
		if len(problems) > 6 {
			problems = append(problems[:6], fmt.Sprintf("... and %d more", len(problems)-6))
		}
		t.Fatalf("LBVC-REPRODUCED (obligation %s): %s", os.Getenv("LBVC_OBLIGATION"), strings.Join(problems, "; "))
	}
}

// Codec: whatever the log accepts is read back unchanged - key, value, headers (nil vs empty), timestamp, leader
// epoch - and neither storing nor reading a message may panic, whatever the message holds.
func TestLbvcScenarioCodec(t *testing.T) {
	var problems []string
	big := strings.Repeat("k", 32768)
	msgs := []*Message{
		{MagicByte: 1, Key: []byte("k"), Value: []byte("v"), Headers: map[string][]byte{"h": []byte("x")}, Timestamp: 5, LeaderEpoch: 2},
		{MagicByte: 1, Key: nil, Value: nil, Headers: nil, Timestamp: 6, LeaderEpoch: 2},
		{MagicByte: 1, Key: []byte{}, Value: []byte{}, Headers: map[string][]byte{}, Timestamp: 7, LeaderEpoch: 3},
		{MagicByte: 1, Key: []byte("k2"), Value: []byte("v2"), Headers: map[string][]byte{"a": nil}, Timestamp: 8, LeaderEpoch: 3},
		{MagicByte: 1, Key: []byte("k3"), Value: []byte("v3"), Headers: map[string][]byte{"a": {}, "b": []byte("bb"), "": []byte("empty-name")}, Timestamp: 9, LeaderEpoch: 3},
		{MagicByte: 1, Key: []byte("k4"), Value: []byte("v4"), Headers: map[string][]byte{big: []byte("x")}, Timestamp: 10, LeaderEpoch: 3},
		{MagicByte: 1, Key: []byte("k5"), Value: []byte("v5"), Headers: map[string][]byte{big[:32767]: []byte("y")}, Timestamp: 11, LeaderEpoch: 4},
	}
	// more headers than the 16-bit count field of the stored form can hold
	many := map[string][]byte{}
	for i := 0; i < 70000; i++ {
		many[fmt.Sprintf("h%d", i)] = []byte("x")
	}
	msgs = append(msgs, &Message{MagicByte: 1, Key: []byte("k6"), Value: []byte("v6"), Headers: many, Timestamp: 12, LeaderEpoch: 4})
	eq := func(a, b []byte) bool { return string(a) == string(b) && (a == nil) == (b == nil) }
	l, cleanup := lbvcLog(t, Options{MaxSegmentBytes: 1 << 22})
	defer cleanup()
	stored := map[int64]*Message{}
	for i, m := range msgs {
		func() {
			defer func() {
				if r := recover(); r != nil {
					problems = append(problems, fmt.Sprintf("appending message %d (%d headers) panicked: %v", i, len(m.Headers), lbvcShort(fmt.Sprint(r))))
				}
			}()
			offs, err := l.Append([]*Message{m})
			if err == nil && len(offs) == 1 {
				stored[offs[0]] = m
			}
		}()
	}
	r, err := l.NewReader(0, true)
	if err != nil {
		t.Skip(err)
	}
	hb := make([]byte, 28)
	for n := 0; n < len(stored); n++ {
		ctx, cancel := context.WithTimeout(context.Background(), time.Second)
		sm, off, ts, epoch, err := r.ReadMessage(ctx, hb)
		cancel()
		if err != nil {
			problems = append(problems, fmt.Sprintf("reading message %d of %d failed: %v", n, len(stored), err))
			break
		}
		want := stored[off]
		if want == nil {
			problems = append(problems, fmt.Sprintf("reader returned offset %d which was never assigned", off))
			continue
		}
		func() {
			defer func() {
				if r := recover(); r != nil {
					problems = append(problems, fmt.Sprintf("decoding the stored message at offset %d (headers %v) panicked: %v", off, lbvcHeaderShape(want.Headers), lbvcShort(fmt.Sprint(r))))
				}
			}()
			if ts != want.Timestamp || epoch != want.LeaderEpoch {
				problems = append(problems, fmt.Sprintf("offset %d: timestamp/epoch %d/%d, stored %d/%d", off, ts, epoch, want.Timestamp, want.LeaderEpoch))
			}
			if !eq(sm.Key(), want.Key) || !eq(sm.Value(), want.Value) {
				problems = append(problems, fmt.Sprintf("offset %d: key/value %q/%q (nil %v/%v), stored %q/%q (nil %v/%v)", off, sm.Key(), sm.Value(), sm.Key() == nil, sm.Value() == nil, want.Key, want.Value, want.Key == nil, want.Value == nil))
			}
			hs := sm.Headers()
			if len(hs) != len(want.Headers) {
				problems = append(problems, fmt.Sprintf("offset %d: %d headers read, %d stored", off, len(hs), len(want.Headers)))
			}
			for k, v := range want.Headers {
				if len(problems) > 12 {
					break
				}
				if got, ok := hs[k]; !ok || string(got) != string(v) {
					problems = append(problems, fmt.Sprintf("offset %d: header %q reads %q (present %v), stored %q", off, lbvcShort(k), got, ok, v))
				}
			}
		}()
	}
	// only the symptoms of the function the failed obligation belongs to count
	obl := os.Getenv("LBVC_OBLIGATION")
	var relevant []string
	for _, pr := range problems {
		switch {
		case strings.Contains(obl, "newMessageSetFromProto"):
			if strings.HasPrefix(pr, "appending") {
				relevant = append(relevant, pr)
			}
		case strings.Contains(obl, "SerializedMessage"):
			if !strings.HasPrefix(pr, "appending") {
				relevant = append(relevant, pr)
			}
		default:
			relevant = append(relevant, pr)
		}
	}
	problems = relevant
	lbvcScenarioTail(t, problems)
}

func lbvcShort(s string) string {
	if len(s) > 120 {
		return s[:60] + "..." + fmt.Sprintf("(%d bytes)", len(s))
	}
	return s
}

func lbvcHeaderShape(h map[string][]byte) string {
	var out []string
	for k, v := range h {
		out = append(out, fmt.Sprintf("%s:nil=%v,len=%d", lbvcShort(k), v == nil, len(v)))
	}
	return strings.Join(out, " ")
}

// Truncation removes a suffix and nothing else: after Truncate(o) the log holds exactly the messages below o,
// unchanged, readable from every start offset (also after a second truncation and after Close + New), and the
// next append gets offset o.
func TestLbvcScenarioTruncate(t *testing.T) {
	var problems []string
	for _, segBytes := range []int64{64, 150, 400, 1 << 20} {
		for _, cuts := range [][]int64{{5}, {7, 3}, {9, 8, 2}, {4, 4}, {1}, {0}} {
			dir, err := os.MkdirTemp("", "lbvc-trunc-")
			if err != nil {
				t.Skip(err)
			}
			lg, err := New(Options{Path: dir, MaxSegmentBytes: segBytes})
			if err != nil {
				os.RemoveAll(dir)
				t.Skip(err)
			}
			l := lg.(*commitLog)
			for i := 0; i < 10; i++ {
				l.Append([]*Message{lbvcMsg(i, 0)})
			}
			desc := fmt.Sprintf("segment bytes %d, 10 messages, truncations %v", segBytes, cuts)
			end := int64(10)
			check := func(when string) {
				if no := l.NewestOffset(); no != end-1 {
					problems = append(problems, fmt.Sprintf("%s, %s: newest offset %d, expected %d", desc, when, no, end-1))
				}
				for start := int64(0); start < end; start++ {
					offs, vals := lbvcReadFwd(l, start, 12)
					var want []int64
					for o := start; o < end; o++ {
						want = append(want, o)
					}
					if fmt.Sprint(offs) != fmt.Sprint(want) {
						problems = append(problems, fmt.Sprintf("%s, %s: reader from %d returned %v, the log holds %v", desc, when, start, offs, want))
						return
					}
					for i, o := range offs {
						if exp := fmt.Sprintf("k%d=value-%d", o, o); vals[i] != exp {
							problems = append(problems, fmt.Sprintf("%s, %s: offset %d reads %q, stored %q", desc, when, o, vals[i], exp))
							return
						}
					}
				}
			}
			for _, c := range cuts {
				if err := l.Truncate(c); err != nil {
					problems = append(problems, fmt.Sprintf("%s: Truncate(%d): %v", desc, c, err))
					break
				}
				if c < end {
					end = c
				}
				check(fmt.Sprintf("after Truncate(%d)", c))
			}
			l.Close()
			if lg2, err := New(Options{Path: dir, MaxSegmentBytes: segBytes}); err == nil {
				l = lg2.(*commitLog)
				check("after Close + New")
				if offs, err := l.Append([]*Message{lbvcMsg(int(end), 0)}); err != nil || len(offs) != 1 || offs[0] != end {
					problems = append(problems, fmt.Sprintf("%s: append after truncation got offsets %v (err %v), expected %d", desc, offs, err, end))
				}
				l.Close()
			} else {
				problems = append(problems, fmt.Sprintf("%s: reopening failed: %v", desc, err))
			}
			os.RemoveAll(dir)
		}
	}
	lbvcScenarioTail(t, problems)
}

// Timestamp lookups: EarliestOffsetAfterTimestamp(ts) is the offset of the first message whose timestamp is >= ts
// (the next offset if there is none); LatestOffsetBeforeTimestamp(ts) is the offset of the last message whose
// timestamp is <= ts. On any segment layout, also with an empty active segment.
func TestLbvcScenarioTimestamps(t *testing.T) {
	var problems []string
	dupes := strings.Contains(os.Getenv("LBVC_OBLIGATION"), "equal-timestamps") || os.Getenv("LBVC_OBLIGATION") == ""
	layouts := [][]int64{{10, 20, 30, 40}, {10, 20, 30, 40, 50, 60, 70}, {10}, {10, 20}}
	if dupes {
		layouts = append(layouts, []int64{10, 20, 20, 20, 30}, []int64{10, 10, 10, 10})
	}
	for _, tss := range layouts {
		for _, segBytes := range []int64{64, 150, 1 << 20} {
			for _, emptyActive := range []bool{false, true} {
				l, cleanup := lbvcLog(t, Options{MaxSegmentBytes: segBytes})
				for i, ts := range tss {
					l.Append([]*Message{{MagicByte: 1, Value: []byte(fmt.Sprintf("value-%d", i)), Timestamp: ts}})
				}
				if emptyActive {
					// a full active segment rolls to an EMPTY one at the next split check
					if split, err := l.checkAndPerformSplit(); err != nil || !split || !l.activeSegment().IsEmpty() {
						cleanup()
						continue
					}
				}
				desc := fmt.Sprintf("timestamps %v, segment bytes %d (%d segments, active empty %v)", tss, segBytes, len(l.Segments()), emptyActive)
				for ts := int64(5); ts <= tss[len(tss)-1]+5; ts += 5 {
					wantE := int64(len(tss))
					for i, x := range tss {
						if x >= ts {
							wantE = int64(i)
							break
						}
					}
					wantL := int64(-1)
					for i, x := range tss {
						if x <= ts {
							wantL = int64(i)
						}
					}
					if e, err := l.EarliestOffsetAfterTimestamp(ts); err != nil || e != wantE {
						problems = append(problems, fmt.Sprintf("%s: EarliestOffsetAfterTimestamp(%d) = %d (err %v), the first message with a timestamp >= %d is at %d", desc, ts, e, err, ts, wantE))
					}
					la, err := l.LatestOffsetBeforeTimestamp(ts)
					if wantL == -1 {
						if err == nil {
							problems = append(problems, fmt.Sprintf("%s: LatestOffsetBeforeTimestamp(%d) = %d, but no message is that old", desc, ts, la))
						}
					} else if err != nil || la != wantL {
						problems = append(problems, fmt.Sprintf("%s: LatestOffsetBeforeTimestamp(%d) = %d (err %v), the last message with a timestamp <= %d is at %d", desc, ts, la, err, ts, wantL))
					}
				}
				cleanup()
			}
		}
	}
	lbvcScenarioTail(t, problems)
}

type lbvcHookLogger struct {
	logger.Logger
	hook func()
}

func (h *lbvcHookLogger) Debugf(format string, v ...interface{}) {
	if strings.HasPrefix(format, "Finished compacting log") && h.hook != nil {
		hook := h.hook
		h.hook = nil
		hook()
	}
}

// A leader epoch that starts while a compaction is running (after the compaction has scanned the active segment, before
// Clean installs the rebuilt epoch cache) must still be known afterwards: with and without further segment rolls.
func TestLbvcScenarioEpochsDuringCompaction(t *testing.T) {
	var problems []string
	for _, rolls := range []int{0, 2} {
		hl := &lbvcHookLogger{Logger: noopLogger()}
		l, cleanup := lbvcLog(t, Options{MaxSegmentBytes: 90, Compact: true, Logger: hl})
		one := func(k string, epoch uint64) int64 {
			offs, err := l.Append([]*Message{{Key: []byte(k), Value: []byte("v"), Timestamp: time.Now().UnixNano(), LeaderEpoch: epoch}})
			if err != nil || len(offs) != 1 {
				return -1
			}
			return offs[0]
		}
		for _, k := range []string{"a", "b", "a", "c", "d"} {
			l.SetHighWatermark(one(k, 1))
		}
		first := int64(-1)
		hl.hook = func() {
			first = one("x", 2) // still in the old active segment
			for i := 0; i < 2*rolls; i++ {
				one(fmt.Sprintf("k%d", i), 2)
			}
		}
		if err := l.Clean(); err != nil {
			problems = append(problems, "Clean: "+err.Error())
		} else if one("after", 2); first < 0 {
		} else if got := l.LastOffsetForLeaderEpoch(1); got != first {
			var cache []string
			for _, e := range l.leaderEpochCache.epochOffsets {
				cache = append(cache, fmt.Sprintf("%d@%d", e.leaderEpoch, e.startOffset))
			}
			problems = append(problems, fmt.Sprintf("epoch 2 starts at offset %d, appended to the active segment while a compaction was running (%d further segment rolls): afterwards the log answers %d for the end of epoch 1 (newest offset %d); epoch cache %v", first, rolls, got, l.NewestOffset(), cache))
		}
		cleanup()
	}
	lbvcScenarioTail(t, problems)
}
