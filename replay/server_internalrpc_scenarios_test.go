package server

// Replay scenario for the obligations of the small internal RPC handlers served on NATS subjects (property C14): server
// information, partition status, partition notification, leader epoch offset and metadata Raft join requests. Every
// handler of a running single-node server is handed (a) byte strings that are no envelope, or an envelope of another
// type, or an envelope whose header-length / flag / type bytes are arbitrary, and (b) decodable requests that name a
// stream or partition the server does not have. None of that may crash the process.

import (
	"context"
	"fmt"
	"os"
	"strings"
	"testing"
	"time"

	nats "github.com/nats-io/nats.go"

	proto "github.com/liftbridge-io/liftbridge/server/protocol"
)

func TestLbvcScenarioInternalRPCs(t *testing.T) {
	defer cleanupStorage(t)
	cfg := getTestConfig("a", true, 5050)
	s1 := runServerWithConfig(t, cfg)
	getMetadataLeader(t, 10*time.Second, s1)
	op := &proto.RaftLog{Op: proto.Op_CREATE_STREAM, CreateStreamOp: &proto.CreateStreamOp{Stream: &proto.Stream{
		Name: "foo", Subject: "foo", Partitions: []*proto.Partition{{Stream: "foo", Subject: "foo", Id: 0, ReplicationFactor: 1,
			Replicas: []string{"a"}, Isr: []string{"a"}, Leader: "a"}}}}}
	fut, err := s1.getRaft().applyOperation(context.Background(), op, nil)
	if err != nil || fut.Error() != nil {
		s1.Stop()
		t.Skipf("setup failed: %v", err)
	}
	waitForPartition(t, 5*time.Second, "foo", 0, s1)
	p := s1.metadata.GetPartition("foo", 0)

	// (a) byte strings: nothing, short headers, every header-length byte with a few flag and type bytes, with and
	// without a payload
	magic := []byte{0xB9, 0x0E, 0x43, 0xB4}
	payloads := [][]byte{nil, {}, {0}, {0xff, 0xff, 0xff}, []byte("garbage that is no protobuf message \xff\xfe")}
	var inputs [][]byte
	inputs = append(inputs, nil, []byte{}, magic, append(append([]byte{}, magic...), 0, 8, 0))
	for hl := 0; hl < 256; hl++ {
		for _, flags := range []byte{0, 1, 0xff} {
			for _, typ := range []byte{0, 1, 2, 3, 4, 5, 6, 7, 8, 9, 10, 11, 12, 13, 14, 0x7f, 0xff} {
				for _, pl := range payloads {
					b := append(append([]byte{}, magic...), 0, byte(hl), flags, typ)
					b = append(b, pl...)
					inputs = append(inputs, b)
				}
			}
		}
	}
	// (b) decodable requests naming what the server does not have
	add := func(b []byte, err error) {
		if err == nil {
			inputs = append(inputs, b)
		}
	}
	add(proto.MarshalServerInfoRequest(&proto.ServerInfoRequest{Id: "zzz"}))
	add(proto.MarshalServerInfoRequest(&proto.ServerInfoRequest{}))
	add(proto.MarshalPartitionStatusRequest(&proto.PartitionStatusRequest{Stream: "nosuch", Partition: 7}))
	add(proto.MarshalPartitionStatusRequest(&proto.PartitionStatusRequest{Stream: "foo", Partition: -1}))
	add(proto.MarshalPartitionStatusRequest(&proto.PartitionStatusRequest{Stream: "foo", Partition: 0}))
	add(proto.MarshalPartitionNotification(&proto.PartitionNotification{Stream: "nosuch", Partition: 7}))
	add(proto.MarshalPartitionNotification(&proto.PartitionNotification{Stream: "foo", Partition: 3}))
	add(proto.MarshalPartitionNotification(&proto.PartitionNotification{Stream: "foo", Partition: 0}))
	add(proto.MarshalPartitionNotification(&proto.PartitionNotification{}))
	add(proto.MarshalLeaderEpochOffsetRequest(&proto.LeaderEpochOffsetRequest{LeaderEpoch: 0}))
	add(proto.MarshalLeaderEpochOffsetRequest(&proto.LeaderEpochOffsetRequest{LeaderEpoch: 1 << 63}))
	add(proto.MarshalLeaderEpochOffsetRequest(&proto.LeaderEpochOffsetRequest{LeaderEpoch: ^uint64(0) - 1}))
	add(proto.MarshalRaftJoinRequest(&proto.RaftJoinRequest{NodeID: "a", NodeAddr: "a"}))

	join := s1.newClusterJoinRequestHandler(s1.getRaft().Raft)
	handlers := []struct {
		name string
		fn   func(*nats.Msg)
	}{
		{"handleServerInfoRequest", s1.handleServerInfoRequest},
		{"handlePartitionStatusRequest", s1.handlePartitionStatusRequest},
		{"handlePartitionNotification", s1.handlePartitionNotification},
		{"handleLeaderOffsetRequest", p.handleLeaderOffsetRequest},
		{"newClusterJoinRequestHandler", join},
	}
	only := os.Getenv("LBVC_OBLIGATION")
	var problems []string
	for _, h := range handlers {
		// selective: only the handler whose obligation failed is exercised (when one is named)
		if strings.Contains(only, "handle") || strings.Contains(only, "newClusterJoin") {
			if !strings.Contains(only, h.name) {
				continue
			}
		}
		crashed := 0
		for _, in := range inputs {
			func() {
				defer func() {
					if r := recover(); r != nil {
						crashed++
						if crashed == 1 {
							problems = append(problems, fmt.Sprintf("%s crashes on the %d-byte payload % x: %v", h.name, len(in), lbvcClip(in, 24), r))
						}
					}
				}()
				h.fn(&nats.Msg{Subject: "x", Reply: "_INBOX.lbvc", Data: in})
			}()
		}
		if crashed > 1 {
			problems = append(problems, fmt.Sprintf("(%s: %d of %d payloads crash it)", h.name, crashed, len(inputs)))
		}
	}
	if len(problems) > 0 {
		// a handler that panicked may have died holding a lock: do not try to stop the server
		fmt.Printf("--- FAIL: LBVC-REPRODUCED (obligation %s): %s\n", only, strings.Join(problems, "; "))
		os.Exit(1)
	}
	s1.Stop()
}

func lbvcClip(b []byte, n int) []byte {
	if len(b) > n {
		return b[:n]
	}
	return b
}
