package server

// Replay scenario for the store-gate obligations of the leader's receive loop (properties
// C04/C17): an encrypted stream whose encryption handler fails for one particular value, and a
// message larger than the replication limit. Neither may reach the log; the log of an encrypted
// stream must not contain a published value in clear.

import (
	"bytes"
	"context"
	"errors"
	"os"
	"path/filepath"
	"strings"
	"sync"
	"testing"
	"time"

	lift "github.com/liftbridge-io/go-liftbridge/v2"

	"github.com/liftbridge-io/liftbridge/server/encryption"
)

type lbvcFaultyCodec struct {
	encryption.Codec
	failOn []byte
}

func (c *lbvcFaultyCodec) Seal(value []byte) ([]byte, error) {
	if bytes.Equal(value, c.failOn) {
		return nil, errors.New("injected encryption failure")
	}
	return c.Codec.Seal(value)
}

func TestLbvcScenarioStoreGates(t *testing.T) {
	defer cleanupStorage(t)
	os.Setenv("LIFTBRIDGE_ENCRYPTION_KEY", "t7w!z%C*F-JaNcRf")
	cfg := getTestConfig("a", true, 5050)
	cfg.BatchMaxTime = 250 * time.Millisecond
	cfg.Clustering.ReplicationMaxBytes = 4096
	s1 := runServerWithConfig(t, cfg)
	defer s1.Stop()
	getMetadataLeader(t, 10*time.Second, s1)
	client, err := lift.Connect([]string{"localhost:5050"})
	if err != nil {
		t.Skipf("setup failed: %v", err)
	}
	defer client.Close()
	name := "foo"
	if err := client.CreateStream(context.Background(), name, name, lift.Encryption(true)); err != nil {
		t.Skipf("setup failed: %v", err)
	}
	p := s1.metadata.GetPartition(name, 0)
	if p == nil || p.encryptionHandler == nil {
		t.Skip("setup failed: no encrypted partition")
	}
	secret := []byte("TOP-SECRET:card=4111-1111-1111-1111")
	big := bytes.Repeat([]byte("B"), 8192)
	p.encryptionHandler = &lbvcFaultyCodec{Codec: p.encryptionHandler, failOn: secret}
	values := [][]byte{[]byte("v0"), []byte("v1"), secret, []byte("v3"), big, []byte("v5")}
	var mu sync.Mutex
	acked := map[int]error{}
	done := make(chan struct{})
	for i, v := range values {
		i := i
		ctx, cancel := context.WithTimeout(context.Background(), 5*time.Second)
		defer cancel()
		if err := client.PublishAsync(ctx, name, v, func(ack *lift.Ack, err error) {
			mu.Lock()
			defer mu.Unlock()
			acked[i] = err
			if len(acked) == len(values) {
				close(done)
			}
		}); err != nil {
			t.Skipf("publish failed: %v", err)
		}
	}
	select {
	case <-done:
	case <-time.After(8 * time.Second):
	}
	var problems []string
	stored := 0
	if newest := p.log.NewestOffset(); newest >= 0 {
		reader, err := p.log.NewReader(0, true)
		if err != nil {
			t.Skipf("reader: %v", err)
		}
		hb := make([]byte, 28)
		ctx, cancel := context.WithTimeout(context.Background(), 5*time.Second)
		defer cancel()
		for {
			m, offset, _, _, err := reader.ReadMessage(ctx, hb)
			if err != nil {
				break
			}
			stored++
			if bytes.Contains(m.Value(), secret) {
				problems = append(problems, "the value whose encryption failed is stored in clear")
			}
			if len(m.Value()) >= len(big) {
				problems = append(problems, "a message larger than the replication limit was stored")
			}
			for _, v := range values[:2] {
				if bytes.Equal(m.Value(), v) {
					problems = append(problems, "a published value is stored unencrypted")
				}
			}
			if offset >= newest {
				break
			}
		}
	}
	files, _ := filepath.Glob(filepath.Join(cfg.DataDir, "streams", name, "0", "*.log"))
	for _, f := range files {
		data, _ := os.ReadFile(f)
		if bytes.Contains(data, secret) {
			problems = append(problems, "a segment file of the encrypted stream contains the published value in clear")
		}
	}
	mu.Lock()
	if err, ok := acked[2]; ok && err == nil {
		problems = append(problems, "the message whose encryption failed was positively acknowledged")
	}
	mu.Unlock()
	if stored > 4 {
		problems = append(problems, "more messages stored than passed the gates")
	}
	if len(problems) > 0 {
		t.Fatalf("LBVC-REPRODUCED (obligation %s): %s", os.Getenv("LBVC_OBLIGATION"), strings.Join(problems, "; "))
	}
}
