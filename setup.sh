#!/bin/bash
# offline build of the verification-condition generator
set -e
cd "$(dirname "$0")"
. ./env.sh
mkdir -p bin evidence
(cd engine && go build -o ../bin/lbvc .)
echo "lbvc built: $(ls -la bin/lbvc)"
