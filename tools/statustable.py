#!/usr/bin/env python3
"""Rewrites the per-property status table of DESIGN.md §11.2 from the evidence files (numbers) and the texts below."""
import json, re, os
root = os.path.dirname(os.path.dirname(os.path.abspath(__file__)))
rows = {
 'C01': ("offset assignment through Append/split, index position of every appended set (Append and AppendMessageSet), findSegment/findEntry, stored-message reader total and exact, Truncate removes a suffix only, committed reader (shared with C03)", "uncommitted reader's segment crossing, recovery from files, encoder side, CRC"),
 'C02': ("leader-epoch cache (sorted, binary search, lookups, Assign, ClearLatest/ClearEarliest/Replace/Rebase), both recorders of an epoch start agree and the leader's answer matches the follower's truncation (K29), history trimmed on reopen and truncation, HW only from the current leader's epoch, a follower reconciles with every new leader before fetching, a term starts without earlier progress (K46)", "the multi-server composition (one instance replayed on a 3-node cluster)"),
 'C03': ("HW monotone, only writers, committed reader resumes after old HW (or at its start offset, K55) in the right segment, list re-read after a wait, committed reverse reads capped at the HW, reads limited at the HW position, getHWPos over a symbolic index (K23), a read fills the buffer or fails (K32)", "liveness; HW waiters; a follower's HW ahead of its log wakes a parked reader only at the next HW change"),
 'C04': ("ack rules, commit = min over ISR, progress credited only from the replica's own report, minISR gate, size gate on the original NATS message, sealed-before-batched, a replica joining the ISR starts at -1", "cross-server timing"),
 'C05': ("order of durable effects in an append, atomic checkpoints (callee whitelists), epoch trimming, Truncate (suffix only, newest first, history cut last), recovery of the tail, open leaves the last segment active", "the crash-instant quantifier: bounded stand-in (an image at every hit of 13 crash points and torn writes in 6 workloads, second-level images at the crash points of recovery; K1, K2, K24, K47, K52, K54, K58 found and repaired)"),
 'C06': ("apply dispatch, idempotency guards, tombstone typestate, read-only/paused/leader re-applied on rebuild, fresh stream objects, synchronous group notification (K22) at the deletion's own place also in replay (K56), paused flag cleared (K27), coordinator change applied in replay, tombstoned streams not in a snapshot (K59)", "whole-history determinism across servers; snapshot fidelity: bounded stand-in; known findings K28 (restored partitions left in recovery mode) and K37 (assignments not restored)"),
 'C07': ("epoch fencing before AND under the proposal lock (K9, K30, K40), witnesses are in-sync followers of the current leader (K5, K41, K42), quorum, expiry forgets the status (K4)", "wall-clock window; two fail-overs of one partition racing each other"),
 'C08': ("retain rule per message, newest segment untouched, one worker's key-table discipline (K7), segments appended during a clean are kept, reverse scanner start (K6) also from the end of an earlier segment, findEntry and findSegment on sparse logs, readers in a replaced segment are sent on", "the goroutine fan-out of the key scan: bounded stand-in; epoch cache rebuilt by a compaction; readers living across a compaction"),
 'C09': ("all three retention loops, unbounded; passes chained; age limit holds after the whole clean (K31); segments appended during a clean are kept", "message/byte limits after the later passes (suffix-sum lemma)"),
 'C10': ("start/stop resolution (read-only end for forward subscriptions only, K57), a start offset inside the uncommitted tail (K55), delivery loop never beyond the stop offset and ends with the status, timestamp lookups at property level over a symbolic multi-segment log (K18, K19)", "equal timestamps (K25, known finding), forward reader internals"),
 'C11': ("store/fetch/cache consistency under the cursor lock (K3), cache only on the partition's leader and purged on leadership, key format, cursors stream compacted and exempt from retention (K39), compaction keeps the latest record per key, checkpoint leaves the current HW on disk", "K11 key collision (known finding); the reverse scan's result is assumed (bounded cursors stand-in); a SetCursor that times out may still be stored"),
 'C12': ("rebalance mechanics, heap order, epoch guards, coordinator-only answers, synchronous deletion notice at its own place (K22, K56), expiry call-back safe (K38), the end of a replay hands out nothing", "group-level invariants: bounded stand-in (all sequences up to 6/7)"),
 'C13': ("Owicki-Gries invariant of the group-subscriber table (K12)", "-"),
 'C14': ("envelope checker sound/complete against the documented format (K13, K33), all Unmarshal* panic-free, stored-message reader panic-free (K8, K17), publish path either/or, propagated requests need their body (K34), replication requests cannot panic the leader (K35)", "protobuf internals; remaining NATS handlers (malformed replicated message set, non-UTF-8 subjects)"),
 'C15': ("authorisation typestate on every handler (K14, K15), effectful helpers only reachable after it, the switch read from its own configuration key (K36), the enforcer's request is the call's own, every SIGHUP reloads the policy", "casbin itself (assumed); the four consumer-group RPCs (no action in the documented vocabulary)"),
 'C16': ("conditional append lands at the expected offset or is refused; at most one winner (lemma); the expected offset travels unchanged from the API request to the log message; only the leader's log decides, the API server passes the verdict on; server-wide switch (K49)", "API paths that cannot state an expected offset (observed, not decided)"),
 'C17': ("everything batched for Append was sealed with the stream's key; every delivered value went through Read; Read/decrypt total (K16); layout", "AES-GCM / key wrap (assumed)"),
 'C18': ("dispatch never skips an unhandled entry, id = Raft index, publish before record, events built from the entry alone, every term gets its dispatcher and channel, the lost term's channel stays in place", "K26 (resume point not in the snapshot, known finding); controller fail-over histories"),
 'C19': ("enabled-typestate before any request, environment opt-out (K20), payload field whitelist, data sources whitelist", "-"),
}
man = {c['property_id']: c for c in json.load(open(os.path.join(root, 'MANIFEST.json')))['checks']}
lines = ["| id | claimed | obligations (discharged) | functions | bounded stand-ins | what is decided by proof | what is not (see MANIFEST `level_note`) |",
         "|----|---------|--------------------------|-----------|-------------------|--------------------------|------------------------------------------|"]
for pid in sorted(rows):
    ev = json.load(open(os.path.join(root, 'evidence', pid + '.json')))
    cov = ev.get('coverage', {})
    ob, dis = cov.get('obligations', '?'), cov.get('discharged', '?')
    fns = len(cov.get('functions_under_contract', cov.get('functions', []))) if isinstance(cov.get('functions_under_contract', cov.get('functions', [])), list) else cov.get('functions', '?')
    bs = cov.get('bounded_stand_ins') or []
    btxt = ', '.join('%s (%s evaluations)' % (b.get('id'), b.get('evaluations', '?')) for b in bs) or '-'
    kf = cov.get('known_findings_reported') or []
    claimed = man[pid]['level_claimed']['category'] + (' (%d known finding%s)' % (len(kf), 's' if len(kf) != 1 else '') if kf else '')
    lines.append("| %s | %s | %s (%s) | %s | %s | %s | %s |" % (pid, claimed, ob, dis, fns, btxt, rows[pid][0], rows[pid][1]))
p = os.path.join(root, 'DESIGN.md'); s = open(p).read()
i = s.index('### 11.2'); j = s.index('### 11.3')
head = s[i:s.index('\n', i) + 1]
s = s[:i] + head + '\n' + '\n'.join(lines) + '\n\n' + s[j:]
open(p, 'w').write(s)
print('\n'.join(lines[:4]))
