#!/usr/bin/env python3
# debugging aid: find the first assertion that makes an SMT-LIB file unsat
import sys, subprocess, tempfile
lines = open(sys.argv[1]).read().split('\n')
head = [l for l in lines if not l.startswith('(assert') and not l.startswith('(check-sat') and not l.startswith('(get-')]
asserts = [l for l in lines if l.startswith('(assert')]
def check(n):
    with tempfile.NamedTemporaryFile('w', suffix='.smt2', delete=False) as f:
        f.write('\n'.join(head + asserts[:n] + ['(check-sat)']))
    out = subprocess.run(['z3-new', '-T:10', f.name], capture_output=True, text=True).stdout.strip().split('\n')[0]
    return out
lo, hi = 0, len(asserts)
print('all:', check(hi))
while lo < hi:
    mid = (lo + hi) // 2
    if check(mid) == 'unsat':
        hi = mid
    else:
        lo = mid + 1
print('first unsat prefix length', lo, 'of', len(asserts))
print(asserts[lo-1][:1500])
