#!/usr/bin/env python3
"""usage: tools/benignprompt.py <worktree-name> <Cxx> [<Cxx> ...]
Writes /tmp/benignprompt-<worktree-name>.txt: instructions for an independent author of SEMANTICS-PRESERVING edits
(refactorings a maintainer would do) in the code the given properties depend on. Contains only property texts."""
import json, os, sys
wt, pids = sys.argv[1], sys.argv[2:]
root = os.path.dirname(os.path.dirname(os.path.abspath(__file__)))
props = {json.loads(l)['id']: json.loads(l) for l in open(os.path.join(root, 'properties.jsonl'))}
blocks = []
for pid in pids:
    p = props[pid]
    mech = '\n'.join('    - %s (%s)' % (m['name'], m['where']) for m in p['anchors'].get('mechanism', []))
    blocks.append(f"  {pid}: \"{p['title']}: {p['statement']}\"\n    code: {', '.join(p['anchors']['files'])}\n{mech}")
txt = f"""You are helping test a verification effort for a Go code base. Work ONLY inside the scratch git worktree /tmp/wt-{wt} (a copy of github.com/liftbridge-io/liftbridge, a Kafka-style message log). Do not touch /repo or /verif and do not read anything under /verif.

Sandbox rules (offline). In every shell command first run:
  export PATH=/root/go/pkg/mod/golang.org/toolchain@v0.0.1-go1.25.3.linux-amd64/bin:$PATH GOFLAGS=-mod=mod GOPROXY=off GOSUMDB=off GOTOOLCHAIN=local
- Tests of package ./server/ bind fixed ports: run them only as  unshare -n sh -c 'ip link set lo up; go test -count=1 -vet=off -timeout 25m ./server/'  (TestReplicatorNotifyNewData and TestSetStreamReadonlyPropagate fail now and then on the unchanged tree too; when the first one fails a later test's goroutine can panic and end the test binary - re-run in that case).
- NEVER use `git stash`. Use `git diff > file`, `git apply`, `git checkout -- .` only.
- Calls crashPoint("...") / verifPoint("...") are no-op test hooks; keep each attached to the statement it follows.

The task is the OPPOSITE of bug injection: write realistic, behaviour-PRESERVING edits - the kind of clean-up or refactoring a maintainer does in passing - to the functions that the following behavioural properties depend on. The properties must still hold after each edit, for every input and schedule, and the observable behaviour must be exactly the same.
{chr(10).join(blocks)}

Produce SIX independent edits, each touching one or two functions among the mechanisms listed above (spread them over different functions and files). Make them varied and realistic, for example: rename a local variable or a parameter; introduce or inline a temporary; turn an early return into if/else or back; split or merge a condition; reorder statements that do not depend on each other; replace a field read by the generated getter or back; change a `for i, x := range s` loop into an index loop or back; hoist a loop-invariant expression out of a loop; extract three or four lines into a small helper function (or inline a tiny helper); replace a `switch` by `if/else if`; change the capacity hint of a make(); add or remove a debug log line; reword an error message's text is NOT allowed (tests may compare it). Do not change any exported API, any on-disk or wire format, any error value, any locking, or the order of observable effects.

For each edit k in 1..6 create /tmp/wt-{wt}/BENIGN<k>/ with:
  - patch.diff : `git diff` of only that edit relative to the worktree's HEAD, applicable with `git apply` from the repository root;
  - README.md : first line = one sentence naming the function(s) and the kind of edit; then why behaviour is unchanged.
Apply one edit at a time and revert (`git checkout -- .`) before the next; at the end the worktree must have no source modifications. For every edit run `go build ./...` and the tests of the package(s) it touches (for ./server/ in the network namespace) and state the result in the README. Do not produce an edit you are not sure is behaviour-preserving.

Final answer: one line per edit (function, kind of edit, test result).
"""
out = f'/tmp/benignprompt-{wt}.txt'
open(out, 'w').write(txt)
print(out)
