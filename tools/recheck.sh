#!/bin/bash
# usage: tools/recheck.sh <seed-id> <property>   (re-runs the property's check with the seed applied to /repo; rewrites check_with.txt)
id="$1"; prop="$2"; dst=/verif/seeded/$id
if [ -n "$(git -C /repo status --porcelain --untracked-files=no)" ]; then echo "refusing: /repo has uncommitted changes"; exit 2; fi
git -C /repo apply "$dst/patch.diff" || { echo "patch does not apply to /repo"; exit 2; }
(cd /verif && ./check "$prop" --no-evidence 2>&1 | grep -E "^(VIOLATION|KNOWN|UNDEC|BROKEN|property|  failed)" | cut -c1-300) | tee "$dst/check_with.txt"
git -C /repo checkout -- . ; git -C /repo status --short | head -3
