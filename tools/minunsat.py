#!/usr/bin/env python3
# debugging aid: try dropping each quantified assumption; report which removals turn timeout into unsat/sat
import sys, subprocess, tempfile
lines = open(sys.argv[1]).read().split('\n')
T = sys.argv[2] if len(sys.argv) > 2 else '5'
idx = [i for i,l in enumerate(lines) if l.startswith('(assert') and '(forall' in l and not l.startswith('(assert (not')]
def run(ls):
    with tempfile.NamedTemporaryFile('w', suffix='.smt2', delete=False) as f:
        f.write('\n'.join(ls))
    return subprocess.run(['z3-new', '-T:'+T, f.name], capture_output=True, text=True).stdout.strip().split('\n')[0]
print('baseline', run(lines), 'quantified assumptions:', len(idx))
for i in idx:
    r = run(lines[:i] + lines[i+1:])
    print(i, r, lines[i][:160])
