#!/bin/bash
# Must-NOT-fail corpus: semantics-preserving edits (selftest/benign/<Cxx>-*.patch: renamed locals and parameters, reordered
# independent statements, an extra log line, an extra temporary ...). The check of the property must stay silent.
cd "$(dirname "$0")/.."
one() {
  p="$1"; id=$(basename "$p" .patch); prop=${id%%-*}
  rd=$(mktemp -d /tmp/lbvc-benign-replay-XXXXXX)
  out=$(LBVC_REPLAY_DIR="$rd" tools/runmutant.sh "$p" "$prop" 2>&1); rc=$?
  rm -rf "$rd"
  if [ $rc -eq 0 ] && ! echo "$out" | grep -q "^VIOLATION"; then
    echo "silent   $id $(echo "$out" | grep -c '^NOTE') rebinding(s)"
  else
    echo "ALARM    $id :: $(echo "$out" | grep -E '^(VIOLATION|UNDEC|patch|mutant)' | head -2 | tr '\n' ' ' | cut -c1-200)"
  fi
}
export -f one
ls selftest/benign/*.patch | xargs -P 4 -I{} bash -c 'one {}' | tee /tmp/lbvc-benign-last.log
a=$(grep -c "^ALARM" /tmp/lbvc-benign-last.log)
echo "benign corpus: $(grep -c '^silent' /tmp/lbvc-benign-last.log) silent, $a false alarms"
[ "$a" -eq 0 ]
