#!/usr/bin/env python3
# usage: seedmeta.py <seed-id> <property> <needs> <caught-by>
import json, sys, os
sid, prop, needs, caught = sys.argv[1:5]
d = '/verif/seeded/' + sid
def rd(n):
    p = os.path.join(d, n)
    return open(p).read().strip() if os.path.exists(p) else ''
meta = {
 "seed": sid, "breaks_property": prop, "needs_to_manifest": needs,
 "origin": "written by an independent sub-agent that saw only the property text and a scratch worktree (no access to /verif)",
 "confirmed": {
   "demo_without_patch": rd('demo_without.txt').splitlines()[-1:] , "demo_with_patch": rd('demo_with.txt').splitlines()[-6:],
   "existing_tests_with_patch": rd('existing_with.txt').splitlines()[-4:],
   "commands": ["tools/seed.sh (scratch worktree under /tmp: go test -run <demo> ./<pkg>/ without and with patch.diff; go test of the touched packages with the patch; then git -C /repo apply patch.diff && ./check %s && git -C /repo checkout -- .)" % prop],
 },
 "check_result_with_patch": rd('check_with.txt').splitlines(),
 "caught_by": caught,
}
json.dump(meta, open(os.path.join(d, 'meta.json'), 'w'), indent=1)
print("wrote", d + '/meta.json')
