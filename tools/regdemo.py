#!/usr/bin/env python3
# usage: tools/regdemo.py <seed-id> <package-dir> <property> <obligation-or-fn:function> [...]
# registers the seed author's demonstration (seeded/<id>/demo_test.go, passes on the unchanged tree) as a replay
# scenario for the given obligations: a failing assertion of it on the real code is the reproduction (any_failure)
import json, sys
sid, pkg, prop = sys.argv[1:4]
p = '/verif/replay/scenarios.json'
d = json.load(open(p))
for ob in sys.argv[4:]:
    e = {"obligation": ob, "property": prop, "package": pkg, "file": "../seeded/%s/demo_test.go" % sid, "test": "TestSeedDemo.*", "timeout_s": 300, "any_failure": True}
    if e not in d:
        d.append(e)
json.dump(d, open(p, 'w'), indent=1)
print("registered", sid, "for", len(sys.argv[4:]), "obligation(s)")
