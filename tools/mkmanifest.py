#!/usr/bin/env python3
# Regenerates /verif/MANIFEST.json from tools/manifest_src.json (claimed checks) and properties.jsonl.
import json, subprocess, os
here = os.path.dirname(os.path.abspath(__file__))
root = os.path.dirname(here)
src = json.load(open(os.path.join(here, 'manifest_src.json')))
props = [json.loads(l) for l in open(os.path.join(root, 'properties.jsonl'))]
ids = [p['id'] for p in props]
checks = []
for pid in ids:
    c = src['checks'].get(pid)
    if not c:
        continue
    checks.append({
        "property_id": pid,
        "quick_cmd": f"./check {pid} --tier quick",
        "thorough_cmd": f"./check {pid} --tier thorough",
        "evidence_file": f"/verif/evidence/{pid}.json",
        "replay_cmd_template": "./check %s --replay {path}" % pid,
        "engine": "lbvc",
        "level_claimed": {"category": c.get("category", "proof"), "text": c["text"], "design_ref": c.get("design_ref", "DESIGN.md §6 " + pid)},
        "level_note": c["note"],
        "technique": c.get("technique", "contract-based deductive verification: WP-style VCs from go/ssa of the real functions against //@ contracts, discharged by z3/cvc5"),
    })
na = [{"property_id": pid, "reason": src['not_applicable'].get(pid, "no check is claimed yet: the contracts for this property are not written / do not discharge yet (work in progress, see DESIGN.md §10)")}
      for pid in ids if pid not in src['checks']]
try:
    hooks = subprocess.check_output(['git', '-C', '/repo', 'log', '--format=%h %s', '--grep=^verif:'], text=True).strip().split('\n')
    hook_commits = [h.split()[0] for h in hooks if h]
except Exception:
    hook_commits = []
man = {
    "version": 1,
    "setup_cmd": "./setup.sh",
    "hooks": {
        "guard": "verif",
        "enable": "go build -tags verif: the contracts_verif.go files hold the //@ contracts as comments and compile to nothing; server/commitlog/crashpoint_verif.go makes crashPoint(name) call a hook variable that the C05 harness sets (crashpoint.go, without the tag, is a no-op); server/verifpoint_verif.go does the same for verifPoint(name), the scheduling points the replay scenarios use to force one interleaving (verifpoint.go, without the tag, is a no-op)",
        "baseline_off_cmd": "cd /repo && . /verif/env.sh && go build ./... && go test -vet=off -count=1 -timeout 25m ./...",
        "source_commits": hook_commits,
        "add_only": True,
    },
    "engines": [{"name": "lbvc", "path": "/verif/engine", "serves_properties": [c["property_id"] for c in checks],
                 "kind_free_text": "verification-condition generator over go/ssa (x/tools v0.29.0) of /repo's working tree + portfolio of z3 4.8.12, z3 5.1.0, cvc5 1.0.3; contracts in /repo/**/*_verif.go, assumed contracts in /verif/specs"}],
    "checks": checks,
    "not_applicable": na,
    "notes": src.get("notes", ""),
}
json.dump(man, open(os.path.join(root, 'MANIFEST.json'), 'w'), indent=1)
print("MANIFEST.json:", len(checks), "checks,", len(na), "not applicable")
