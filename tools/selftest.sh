#!/bin/bash
# Must-fail corpus: every own mutant (selftest/mutants/<Cxx>-*.patch) and every seeded mutant
# (seeded/<Cxx>-*/patch.diff) must make the check of its property report a VIOLATION.
cd "$(dirname "$0")/.."
pass=0; fail=0
for p in selftest/mutants/*.patch seeded/*/patch.diff; do
  case "$p" in
    seeded/*) id=$(basename "$(dirname "$p")");;
    *) id=$(basename "$p" .patch);;
  esac
  prop=${id%%-*}
  out=$(tools/runmutant.sh "$p" "$prop" 2>&1)
  if echo "$out" | grep -q "^VIOLATION property=$prop"; then
    pass=$((pass+1)); echo "caught   $id"
  else
    fail=$((fail+1)); echo "MISSED   $id :: $(echo "$out" | grep -E '^(property|patch|mutant|UNDEC)' | head -2 | tr '\n' ' ' | cut -c1-160)"
  fi
done
echo "selftest: $pass caught, $fail missed"
[ $fail -eq 0 ]
