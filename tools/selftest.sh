#!/bin/bash
# Must-fail corpus: every own mutant (selftest/mutants/<Cxx>-*.patch) and every seeded mutant
# (seeded/<Cxx>-*/patch.diff) must make the check of its property report a VIOLATION.
# Runs 4 at a time; each run keeps its replay records in a scratch directory of its own.
cd "$(dirname "$0")/.."
one() {
  p="$1"
  case "$p" in
    seeded/*) id=$(basename "$(dirname "$p")");;
    *) id=$(basename "$p" .patch);;
  esac
  prop=${id%%-*}
  rd=$(mktemp -d /tmp/lbvc-selftest-replay-XXXXXX)
  out=$(LBVC_REPLAY_DIR="$rd" tools/runmutant.sh "$p" "$prop" 2>&1)
  rm -rf "$rd"
  if echo "$out" | grep -q "^VIOLATION property=$prop"; then
    echo "caught   $id"
  else
    echo "MISSED   $id :: $(echo "$out" | grep -E '^(property|patch|mutant|UNDEC)' | head -2 | tr '\n' ' ' | cut -c1-160)"
  fi
}
export -f one
ls selftest/mutants/*.patch seeded/*/patch.diff | xargs -P 4 -I{} bash -c 'one {}' | tee /tmp/lbvc-selftest-last.log
c=$(grep -c "^caught" /tmp/lbvc-selftest-last.log); m=$(grep -c "^MISSED" /tmp/lbvc-selftest-last.log)
echo "selftest: $c caught, $m missed"
[ "$m" -eq 0 ]
