#!/usr/bin/env python3
"""usage: tools/seedprompt.py <property-id> <worktree-name>
Writes /tmp/seedprompt-<worktree-name>.txt: the instructions handed to an independent seed author.
It contains ONLY the property's own text (statement, quantifier, anchors from properties.jsonl), the
sandbox rules and the names of earlier seeds (so that a new round does something different) -
nothing about the contracts, checks or machinery in /verif."""
import json, os, sys

pid, wt = sys.argv[1], sys.argv[2]
root = os.path.dirname(os.path.dirname(os.path.abspath(__file__)))
prop = [json.loads(l) for l in open(os.path.join(root, 'properties.jsonl')) if json.loads(l)['id'] == pid][0]
prior = sorted(d for d in os.listdir(os.path.join(root, 'seeded')) if d.startswith(pid + '-'))
prior_txt = []
for d in prior:
    r = os.path.join(root, 'seeded', d, 'README.md')
    first = ''
    if os.path.exists(r):
        for line in open(r):
            line = line.strip()
            if line and not line.startswith('#'):
                first = line[:220]
                break
    prior_txt.append('  - %s%s' % (d.split('-', 2)[2].replace('-', ' '), (': ' + first) if first else ''))
mech = '\n'.join('  - %s (%s)' % (m['name'], m['where']) for m in prop['anchors'].get('mechanism', []))
state = '\n'.join('  - %s: %s (%s)' % (s['name'], s['meaning'], s['where']) for s in prop['anchors'].get('state', []))
server_pkg = any(f.startswith('server/') and f.count('/') == 1 for f in prop['anchors']['files'])
txt = f"""You are helping test a verification effort by writing *realistic, subtle bugs* into a Go code base. Work ONLY inside the scratch git worktree /tmp/wt-{wt} (a copy of the repository github.com/liftbridge-io/liftbridge, a Kafka-style message log in Go). Do not touch /repo or /verif, and do not read anything under /verif.

Rules of the sandbox (offline, no network). In every shell command first run:
  export PATH=/root/go/pkg/mod/golang.org/toolchain@v0.0.1-go1.25.3.linux-amd64/bin:$PATH GOFLAGS=-mod=mod GOPROXY=off GOSUMDB=off GOTOOLCHAIN=local
- The tests of package ./server/ bind fixed ports and other processes on this machine run them too: ALWAYS run go test for ./server/ inside a private network namespace:  unshare -n sh -c 'ip link set lo up; go test -count=1 -vet=off -timeout 25m ./server/'  (a few of its tests, e.g. TestReplicatorNotifyNewData and TestSetStreamReadonlyPropagate, are timing dependent and fail now and then under load even on the unchanged tree - re-run such a test alone before concluding anything; the machine is busy, be patient; the whole package takes 4-10 minutes).
- NEVER use `git stash` (the stash is shared with other worktrees). Use `git diff > file`, `git apply`, `git apply -R`, `git checkout -- .` only.
- When you run `./...` exclude your own MUTANT directories: go test $(go list ./... | grep -v MUTANT).
- Files named crashpoint.go / verifpoint.go and calls crashPoint("...") / verifPoint("...") are no-op test hooks; leave those lines where they are (keep each call attached to the statement it follows if you move code).

The property under test (behavioural; it must hold {prop['quantifier']['text']}):
  "{prop['title']}: {prop['statement']}"
Relevant code: {', '.join(prop['anchors']['files'])}.
State it lives in:
{state or '  (none listed)'}
Mechanisms that implement it:
{mech}

Earlier rounds already produced these changes - do something DIFFERENT from all of them (a different function or a different aspect of the property):
{chr(10).join(prior_txt)}

Your task: produce TWO different, independent changes (mutants) to the Go source (non-test files) that each BREAK this property while (a) still compiling, (b) still passing the ENTIRE existing test suite of every package they touch, unchanged (you may not edit or delete existing tests), and (c) looking like a plausible mistake, "refactoring", "optimisation" or "simplification" a developer could make and a reviewer could wave through. Prefer changes that need something specific to manifest - a particular alignment, corner value, ordering, interleaving or combination of features named in the quantifier above - NOT something ordinary use or the existing tests would expose at once. The two mutants must break different aspects of the property and sit in different functions. Read the code first; pick places where the property depends on a detail that no existing test pins.

For each mutant k in {{1,2}} create the directory /tmp/wt-{wt}/MUTANT<k>/ containing:
  - patch.diff : output of `git diff` of ONLY the source change (relative to the worktree's HEAD commit), applicable with `git apply` from the repository root;
  - demo_test.go : a Go test file (state in a comment at its top which package directory it must be copied into) that FAILS with the patch applied and PASSES without it; make it deterministic and quick (in-package test using the package's own helpers; for ./server/ a single in-process server or directly constructed objects where possible); name its test function(s) TestSeedDemo...;
  - README.md : first line = one sentence saying what the change does; then which aspect of the property it breaks, what it needs in order to manifest, the exact commands you ran and their results (demo fails with patch, passes without; which existing test packages you ran with the patch and that they passed).
Apply one mutant at a time; after producing the files for a mutant, revert the source (`git checkout -- .`; keep the MUTANT<k> directories, they are untracked) so that the worktree source is back to the base commit before starting the next. At the end the worktree must have no source modifications, only the untracked MUTANT1/ and MUTANT2/ directories. You must actually run the existing tests of every package you touched with each patch applied{' (for ./server/ in the network namespace as shown)' if server_pkg else ''} and the demo both ways; do not report success without having run them.

If, while reading, you find that the UNCHANGED code already violates the property for some input or schedule, do not use that as a mutant; instead describe it (with a reproducing test if you can) in /tmp/wt-{wt}/BASE-DEFECT.md.

Final answer: for each mutant one paragraph (what it changes, what it breaks, how the demo shows it), plus any base defect you noticed.
"""
out = f'/tmp/seedprompt-{wt}.txt'
open(out, 'w').write(txt)
print(out)
