#!/bin/bash
# creates a scratch worktree of /repo without the contract files (for independent mutant authors)
set -e
name="$1"
dir=/tmp/wt-$name
git -C /repo worktree add --detach "$dir" HEAD >/dev/null 2>&1
cd "$dir"
find . -name '*_verif.go' -delete
git -c user.name=builder -c user.email=b@x commit -qam "scratch base (contracts removed)" || true
echo "$dir base=$(git rev-parse --short HEAD)"
