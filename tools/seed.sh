#!/bin/bash
# usage: tools/seed.sh <seed-id> <property> <worktree-mutant-dir> <demo-package-dir> [test -run regex]
# 1. copies patch.diff / demo_test.go / README.md into /verif/seeded/<seed-id>/
# 2. confirms in a scratch worktree: demo passes without the patch, fails with it; touched package tests pass with it
# 3. applies the patch to /repo, runs ./check <property>, reverts /repo
set -u
id="$1"; prop="$2"; src="$3"; pkg="$4"; run="${5:-.}"
if [ "${SEED_SCRATCH:-0}" != "1" ] && [ -n "$(git -C /repo status --porcelain --untracked-files=no)" ]; then echo "refusing: /repo has uncommitted changes (commit contract edits first; this script reverts the working tree)"; exit 2; fi
. /verif/env.sh
dst=/verif/seeded/$id
mkdir -p "$dst"
cp "$src/patch.diff" "$dst/patch.diff"; cp "$src/demo_test.go" "$dst/demo_test.go"; [ -f "$src/README.md" ] && cp "$src/README.md" "$dst/README.md"
wt=/tmp/seedcheck-$id
git -C /repo worktree remove --force "$wt" >/dev/null 2>&1
git -C /repo worktree add --detach "$wt" HEAD >/dev/null 2>&1 || { echo "cannot create worktree"; exit 2; }
cp "$dst/demo_test.go" "$wt/$pkg/zz_seed_demo_test.go"
echo "--- demo WITHOUT patch"
(cd "$wt" && unshare -n sh -c "ip link set lo up; exec \"\$@\"" -- go test -count=1 -vet=off -timeout 600s -run "$run" "./$pkg/" 2>&1 | tail -3) | tee "$dst/demo_without.txt"
(cd "$wt" && git apply "$dst/patch.diff") || { echo "patch does not apply"; git -C /repo worktree remove --force "$wt"; exit 2; }
echo "--- demo WITH patch"
(cd "$wt" && unshare -n sh -c "ip link set lo up; exec \"\$@\"" -- go test -count=1 -vet=off -timeout 600s -run "$run" "./$pkg/" 2>&1 | tail -5) | tee "$dst/demo_with.txt"
rm -f "$wt/$pkg/zz_seed_demo_test.go"
if [ "${SEED_FULL:-0}" = "1" ]; then
  echo "--- existing tests WITH patch (packages touched)"
  pk=$(cd "$wt" && git diff --name-only | xargs -n1 dirname | sort -u | sed 's#^#./#')
  (cd "$wt" && unshare -n sh -c "ip link set lo up; exec \"\$@\"" -- go test -count=1 -vet=off -timeout 25m $pk 2>&1 | tail -5) | tee "$dst/existing_with.txt"
fi
git -C /repo worktree remove --force "$wt"
if [ "${SEED_SCRATCH:-0}" = "1" ]; then
  # triage without touching /repo: the check runs on a scratch copy with the patch (the recorded result is taken later by tools/recheck.sh on /repo itself)
  echo "--- check $prop on a scratch copy with the patch"
  (cd /verif && tools/runmutant.sh "$dst/patch.diff" "$prop" 2>&1 | grep -E "^(VIOLATION|KNOWN|UNDEC|BROKEN|property|  failed)" | cut -c1-300) | tee "$dst/check_with.txt"
  exit 0
fi
echo "--- check $prop with the patch applied to /repo"
git -C /repo apply "$dst/patch.diff" || { echo "patch does not apply to /repo"; exit 2; }
(cd /verif && ./check "$prop" --no-evidence 2>&1 | grep -E "^(VIOLATION|KNOWN|UNDEC|BROKEN|property|  failed)" | cut -c1-300) | tee "$dst/check_with.txt"
git -C /repo checkout -- . ; git -C /repo status --short | head -3
