#!/bin/bash
# usage: tools/runscenario.sh <package-dir> <scenario-file> <TestName>   (runs a replay scenario on the unchanged tree)
. /verif/env.sh
tmp=$(mktemp -d); cp /verif/replay/$2 $tmp/x_test.go
echo "{\"Replace\": {\"/repo/$1/zz_lbvc_scenario_test.go\": \"$tmp/x_test.go\"}}" > $tmp/ov.json
cd /repo && unshare -n sh -c "ip link set lo up; exec \"\$@\"" -- go test -tags verif -overlay $tmp/ov.json -vet=off -count=1 -timeout 300s -run "^$3\$" -v ./$1 2>&1 | grep -E "^(---|===|ok|FAIL|\s+zz_)" | tail -8
rm -rf $tmp
