#!/bin/bash
# runs every claimed check at the quick tier; prints one line per property and anything that is not a clean pass
cd "$(dirname "$0")/.."
rc=0
for p in $(python3 -c "import json; print(' '.join(c['property_id'] for c in json.load(open('MANIFEST.json'))['checks']))"); do
  out=$(./check $p --tier quick 2>&1); r=$?
  echo "$out" | grep -E "^VIOLATION|^property|BROKEN|UNDEC|KNOWN" | cut -c1-220
  [ $r -ne 0 ] && rc=1
done
exit $rc
