#!/bin/bash
# usage: tools/runbounded.sh <package-dir> <file under /verif/bounded> <TestName> [tier]   (runs a bounded stand-in on the working tree)
. /verif/env.sh
tmp=$(mktemp -d); cp /verif/bounded/$2 $tmp/x_test.go
echo "{\"Replace\": {\"/repo/$1/zz_lbvc_bounded_test.go\": \"$tmp/x_test.go\"}}" > $tmp/ov.json
cd /repo && LBVC_TIER=${4:-quick} unshare -n sh -c "ip link set lo up; exec \"\$@\"" -- go test -tags verif -overlay $tmp/ov.json -vet=off -count=1 -timeout 1200s -run "^$3\$" -v ./$1 2>&1 | grep -E "LBVC|^---|^ok|^FAIL|zz_" | cut -c1-900
rm -rf $tmp
