#!/bin/bash
# usage: tools/seedfull.sh [seed-id ...]   (default: every seed without existing_with.txt)
# confirms that the packages a seed touches still pass their existing tests with the seed applied
# (scratch worktree under /tmp, removed afterwards), and refreshes meta.json's record of it.
. /verif/env.sh
ids="$@"; [ -z "$ids" ] && ids=$(for d in /verif/seeded/*/; do [ -s "$d/existing_with.txt" ] || basename "$d"; done)
one() {
  id="$1"; dst=/verif/seeded/$id; wt=/tmp/seedfull-$id
  git -C /repo worktree remove --force "$wt" >/dev/null 2>&1
  git -C /repo worktree add --detach "$wt" HEAD >/dev/null 2>&1 || { echo "$id: cannot create worktree"; return; }
  (cd "$wt" && git apply "$dst/patch.diff") || { echo "$id: patch does not apply"; git -C /repo worktree remove --force "$wt"; return; }
  pk=$(cd "$wt" && git diff --name-only | xargs -n1 dirname | sort -u | sed 's#^#./#')
  (cd "$wt" && unshare -n sh -c "ip link set lo up; exec \"\$@\"" -- go test -count=1 -vet=off -timeout 25m $pk 2>&1) > "/tmp/seedfull-$id.out"
  failed=$(grep -E '^--- FAIL: ' "/tmp/seedfull-$id.out" | awk '{print $3}' | sort -u | tr '\n' '|' | sed 's/|$//')
  { grep -E '^(--- FAIL|ok|FAIL|panic)' "/tmp/seedfull-$id.out" | tail -8; } > "$dst/existing_with.txt"
  if [ -n "$failed" ]; then
    # tests of this package that fail under load are re-run alone, three times (several are timing dependent on the unchanged tree too)
    echo "re-running alone (x3): $failed" >> "$dst/existing_with.txt"
    (cd "$wt" && unshare -n sh -c "ip link set lo up; exec \"\$@\"" -- go test -count=3 -vet=off -timeout 25m -run "^($failed)\$" $pk 2>&1 | grep -E '^(--- FAIL|ok|FAIL)' | tail -5) >> "$dst/existing_with.txt"
  fi
  rm -f "/tmp/seedfull-$id.out"
  git -C /repo worktree remove --force "$wt"
  echo "$id: $(tail -1 $dst/existing_with.txt)"
  python3 - "$id" <<'PY'
import json,sys
d='/verif/seeded/'+sys.argv[1]
m=json.load(open(d+'/meta.json')) if __import__('os').path.exists(d+'/meta.json') else None
if m:
    m['confirmed']['existing_tests_with_patch']=open(d+'/existing_with.txt').read().strip().splitlines()[-4:]
    json.dump(m,open(d+'/meta.json','w'),indent=1)
PY
}
export -f one
printf '%s\n' $ids | xargs -P 3 -I{} bash -c 'one {}'
