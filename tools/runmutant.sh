#!/bin/bash
# usage: tools/runmutant.sh <patch-file> <property> [extra check flags]
# Applies a patch to a scratch copy of /repo (outside /repo and /verif), runs the property's check
# against it and removes the copy. Exit status: that of the check (1 = violation detected).
set -u
patch="$(readlink -f "$1")"; prop="$2"; shift 2
dir=$(mktemp -d /tmp/lbvc-mut-XXXXXX)
trap 'rm -rf "$dir"' EXIT
rsync -a --exclude .git --exclude website --exclude documentation --exclude docker --exclude k8s /repo/ "$dir/"
(cd "$dir" && patch -p1 -s < "$patch") || { echo "patch does not apply"; exit 3; }
cd "$(dirname "$0")/.."
. ./env.sh
(cd "$dir" && go build ./... ) || { echo "mutant does not compile"; exit 3; }
LBVC_REPO="$dir" ./bin/lbvc check --prop "$prop" --no-evidence --repo "$dir" "$@"
