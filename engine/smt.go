package main

import (
	"fmt"
	"regexp"
	"go/types"
	"math/big"
	"sort"
	"strings"
)

// Sort is an SMT-LIB sort written out.
type Sort string

const (
	SInt   Sort = "Int"
	SBool  Sort = "Bool"
	SStr   Sort = "String"
	SReal  Sort = "Real"
	SSlice Sort = "Slice"
)

func arrSort(k, v Sort) Sort { return Sort(fmt.Sprintf("(Array %s %s)", k, v)) }

// Term is an SMT term with its sort.
type Term struct {
	S    string
	Sort Sort
}

func tInt(n int64) Term {
	if n < 0 {
		return Term{fmt.Sprintf("(- %d)", -n), SInt}
	}
	return Term{fmt.Sprintf("%d", n), SInt}
}
func tBig(n *big.Int) Term {
	if n.Sign() < 0 {
		return Term{"(- " + new(big.Int).Neg(n).String() + ")", SInt}
	}
	return Term{n.String(), SInt}
}
func tBool(b bool) Term {
	if b {
		return Term{"true", SBool}
	}
	return Term{"false", SBool}
}

var tTrue, tFalse = tBool(true), tBool(false)

func app(op string, sort Sort, args ...Term) Term {
	var sb strings.Builder
	sb.WriteString("(")
	sb.WriteString(op)
	for _, a := range args {
		sb.WriteString(" ")
		sb.WriteString(a.S)
	}
	sb.WriteString(")")
	return Term{sb.String(), sort}
}

func and(ts ...Term) Term {
	var xs []Term
	for _, t := range ts {
		if t.S == "true" {
			continue
		}
		if t.S == "false" {
			return tFalse
		}
		xs = append(xs, t)
	}
	if len(xs) == 0 {
		return tTrue
	}
	if len(xs) == 1 {
		return xs[0]
	}
	return app("and", SBool, xs...)
}
func or(ts ...Term) Term {
	var xs []Term
	for _, t := range ts {
		if t.S == "false" {
			continue
		}
		if t.S == "true" {
			return tTrue
		}
		xs = append(xs, t)
	}
	if len(xs) == 0 {
		return tFalse
	}
	if len(xs) == 1 {
		return xs[0]
	}
	return app("or", SBool, xs...)
}
func not(t Term) Term {
	if t.S == "true" {
		return tFalse
	}
	if t.S == "false" {
		return tTrue
	}
	return app("not", SBool, t)
}
func implies(a, b Term) Term {
	if a.S == "true" {
		return b
	}
	if a.S == "false" || b.S == "true" {
		return tTrue
	}
	return app("=>", SBool, a, b)
}
func eq(a, b Term) Term {
	if a.S == b.S {
		return tTrue
	}
	return app("=", SBool, a, b)
}
func ite(c, a, b Term) Term {
	if c.S == "true" {
		return a
	}
	if c.S == "false" {
		return b
	}
	if a.S == b.S {
		return a
	}
	return app("ite", a.Sort, c, a, b)
}
func add(a, b Term) Term { return app("+", SInt, a, b) }
func sub(a, b Term) Term { return app("-", SInt, a, b) }
func mul(a, b Term) Term { return app("*", SInt, a, b) }
func le(a, b Term) Term  { return app("<=", SBool, a, b) }
func lt(a, b Term) Term  { return app("<", SBool, a, b) }
func sel(a, i Term) Term {
	// (Array K V) -> V
	s := string(a.Sort)
	vs := arrayValSort(Sort(s))
	return app("select", vs, a, i)
}
func store(a, i, v Term) Term { return app("store", a.Sort, a, i, v) }

// arrayValSort parses "(Array K V)" and returns V.
func arrayValSort(s Sort) Sort {
	str := strings.TrimSpace(string(s))
	if !strings.HasPrefix(str, "(Array ") {
		panic("not an array sort: " + str)
	}
	body := str[len("(Array ") : len(str)-1]
	// split first sort
	k := splitSort(body)
	return Sort(strings.TrimSpace(body[len(k):]))
}
func arrayKeySort(s Sort) Sort {
	str := strings.TrimSpace(string(s))
	body := str[len("(Array ") : len(str)-1]
	return Sort(splitSort(body))
}
func splitSort(body string) string {
	body = strings.TrimLeft(body, " ")
	if body[0] != '(' {
		i := strings.IndexByte(body, ' ')
		if i < 0 {
			return body
		}
		return body[:i]
	}
	d := 0
	for i, c := range body {
		if c == '(' {
			d++
		} else if c == ')' {
			d--
			if d == 0 {
				return body[:i+1]
			}
		}
	}
	return body
}

// slice accessors
func sArr(s Term) Term { return app("s_arr", SInt, s) }
func sOff(s Term) Term { return app("s_off", SInt, s) }
func sLen(s Term) Term { return app("s_len", SInt, s) }
func sCap(s Term) Term { return app("s_cap", SInt, s) }
func mkSlice(arr, off, ln, cp Term) Term {
	return app("mkslice", SSlice, arr, off, ln, cp)
}

var nilSlice = Term{"(mkslice 0 0 0 0)", SSlice}

func smtString(s string) Term {
	var sb strings.Builder
	sb.WriteByte('"')
	for _, r := range s {
		if r == '"' {
			sb.WriteString("\"\"")
		} else if r < 32 || r > 126 || r == '\\' {
			fmt.Fprintf(&sb, "\\u{%x}", r)
		} else {
			sb.WriteRune(r)
		}
	}
	sb.WriteByte('"')
	return Term{sb.String(), SStr}
}

// sanitize makes an SMT simple symbol fragment (we always quote with |...| anyway).
func sym(s string) string {
	s = strings.ReplaceAll(s, "|", "!")
	s = strings.ReplaceAll(s, "\\", "!")
	return "|" + s + "|"
}

// ---------------------------------------------------------------------------
// Ctx: one SMT context (declarations + background assertions) per verified function

type Ctx struct {
	w        *World
	declSeen map[string]bool
	decls    []string // declarations in order
	asserts  []string // background facts and definitions (assert ...)
	nfresh   int
	structs  map[string]*structSort // by sort name
	compSort map[string]Sort
	factSeen map[string]bool
	typeNames map[string]string
	usedNames map[string]bool
	wm        map[string]Term // component version -> allocation watermark
	byteAx    map[string]bool
}

type structSort struct {
	name   string
	fields []string
	sorts  []Sort
	st     *types.Struct
}

func newCtx(w *World) *Ctx {
	return &Ctx{w: w, declSeen: map[string]bool{}, structs: map[string]*structSort{}, compSort: map[string]Sort{}, factSeen: map[string]bool{}, wm: map[string]Term{}}
}

const prelude = `(set-option :produce-models true)
(set-logic ALL)
(declare-datatypes ((Slice 0)) (((mkslice (s_arr Int) (s_off Int) (s_len Int) (s_cap Int)))))
`

func (c *Ctx) declare(name string, line string) {
	if c.declSeen[name] {
		return
	}
	c.declSeen[name] = true
	c.decls = append(c.decls, line)
}

func (c *Ctx) declConst(name string, s Sort) Term {
	q := sym(name)
	c.declare(name, fmt.Sprintf("(declare-const %s %s)", q, s))
	return Term{q, s}
}

func (c *Ctx) declFun(name string, args []Sort, res Sort) string {
	q := sym(name)
	var as []string
	for _, a := range args {
		as = append(as, string(a))
	}
	c.declare(name, fmt.Sprintf("(declare-fun %s (%s) %s)", q, strings.Join(as, " "), res))
	return q
}

func (c *Ctx) fresh(prefix string, s Sort) Term {
	c.nfresh++
	return c.declConst(fmt.Sprintf("%s#%d", prefix, c.nfresh), s)
}

func (c *Ctx) assert(t Term) {
	if t.S == "true" {
		return
	}
	c.asserts = append(c.asserts, "(assert "+t.S+")")
}

// fact asserts a background fact once.
func (c *Ctx) fact(t Term) {
	if t.S == "true" || c.factSeen[t.S] {
		return
	}
	if strings.Contains(t.S, "|q!") || strings.Contains(t.S, "|a!") || strings.Contains(t.S, "|$p:") || strings.Contains(t.S, "|l!") {
		return // mentions a bound variable / formal parameter: not a closed fact
	}
	c.factSeen[t.S] = true
	c.assert(t)
}

func (c *Ctx) text(nassert int) string {
	var sb strings.Builder
	sb.WriteString(prelude)
	for _, d := range c.decls {
		sb.WriteString(d)
		sb.WriteByte('\n')
	}
	as := c.asserts
	if nassert >= 0 && nassert < len(as) {
		as = as[:nassert]
	}
	for _, a := range as {
		sb.WriteString(a)
		sb.WriteByte('\n')
	}
	return sb.String()
}

// ---------------------------------------------------------------------------
// Go types -> sorts

func isNamedStruct(t types.Type) (*types.Named, *types.Struct, bool) {
	n, ok := t.(*types.Named)
	if !ok {
		if a, ok2 := t.(*types.Alias); ok2 {
			return isNamedStruct(types.Unalias(a))
		}
		return nil, nil, false
	}
	s, ok := n.Underlying().(*types.Struct)
	return n, s, ok
}

func typeShort(t types.Type) string {
	if b, ok := t.(*types.Basic); ok && b.Kind() != types.Invalid && b.Kind() <= types.UnsafePointer {
		return types.Typ[b.Kind()].Name() // byte -> uint8, rune -> int32
	}
	s := types.TypeString(t, func(p *types.Package) string {
		if isModPath(p.Path()) || !strings.Contains(p.Path(), "/") {
			return p.Name()
		}
		return p.Path() // packages outside the module by full path: names are not unique (sync vs internal/sync)
	})
	if strings.Contains(s, "byte") {
		s = byteRe.ReplaceAllString(s, "uint8")
	}
	return s
}

var byteRe = regexp.MustCompile(`\bbyte\b`)

// sortOf maps a Go type to its SMT sort.
func (c *Ctx) sortOf(t types.Type) Sort {
	t = types.Unalias(t)
	switch u := t.Underlying().(type) {
	case *types.Basic:
		switch {
		case u.Info()&types.IsBoolean != 0:
			return SBool
		case u.Info()&types.IsString != 0:
			return SStr
		case u.Info()&types.IsFloat != 0, u.Info()&types.IsComplex != 0:
			return SReal
		default:
			return SInt
		}
	case *types.Slice:
		return SSlice
	case *types.Struct:
		return c.structSortOf(t, u)
	case *types.Array:
		return arrSort(SInt, c.sortOf(u.Elem()))
	case *types.Tuple:
		return SInt
	default:
		return SInt
	}
}

func (c *Ctx) structSortOf(t types.Type, st *types.Struct) Sort {
	name := c.uniqueTypeName(t, st)
	qn := sym(name)
	if _, ok := c.structs[name]; ok {
		return Sort(qn)
	}
	ss := &structSort{name: name, st: st}
	c.structs[name] = ss // guard recursion (recursive structs by value are impossible in Go)
	var fl []string
	for i := 0; i < st.NumFields(); i++ {
		f := st.Field(i)
		fs := c.sortOf(f.Type())
		ss.fields = append(ss.fields, f.Name())
		ss.sorts = append(ss.sorts, fs)
		fl = append(fl, fmt.Sprintf("(%s %s)", sym(name+"."+fmt.Sprintf("%d_%s", i, f.Name())), fs))
	}
	if st.NumFields() == 0 {
		c.declare(name, fmt.Sprintf("(declare-datatypes ((%s 0)) (((%s))))", qn, sym("mk_"+name)))
	} else {
		c.declare(name, fmt.Sprintf("(declare-datatypes ((%s 0)) (((%s %s))))", qn, sym("mk_"+name), strings.Join(fl, " ")))
	}
	return Sort(qn)
}

// uniqueTypeName: short readable sort name, unique per distinct Go type (two packages may share a name).
func (c *Ctx) uniqueTypeName(t types.Type, st *types.Struct) string {
	full := types.TypeString(t, nil)
	if n, ok := c.typeNames[full]; ok {
		return n
	}
	if c.typeNames == nil {
		c.typeNames = map[string]string{}
		c.usedNames = map[string]bool{}
	}
	name := "S_" + typeShort(t)
	if _, ok := t.(*types.Named); !ok {
		name = fmt.Sprintf("S_anon_%d_%s", st.NumFields(), typeShort(t))
	}
	if len(name) > 100 {
		name = name[:100]
	}
	base := name
	for k := 2; c.usedNames[name]; k++ {
		name = fmt.Sprintf("%s~%d", base, k)
	}
	c.usedNames[name] = true
	c.typeNames[full] = name
	return name
}

func (c *Ctx) structInfo(t types.Type) *structSort {
	st := t.Underlying().(*types.Struct)
	s := c.structSortOf(t, st)
	_ = s
	name := strings.Trim(string(s), "|")
	return c.structs[name]
}

func (c *Ctx) structField(t types.Type, v Term, i int) Term {
	si := c.structInfo(t)
	return app(sym(si.name+"."+fmt.Sprintf("%d_%s", i, si.fields[i])), si.sorts[i], v)
}

func (c *Ctx) mkStruct(t types.Type, fs []Term) Term {
	si := c.structInfo(t)
	if len(fs) == 0 {
		return Term{sym("mk_" + si.name), Sort(sym(si.name))}
	}
	return app(sym("mk_"+si.name), Sort(sym(si.name)), fs...)
}

// intRange returns the inclusive range of an integer basic type (ok=false for non-integers).
func intRange(t types.Type) (lo, hi *big.Int, ok bool) {
	b, isb := types.Unalias(t).Underlying().(*types.Basic)
	if !isb || b.Info()&types.IsInteger == 0 {
		return nil, nil, false
	}
	bits := map[types.BasicKind]int{types.Int8: 8, types.Int16: 16, types.Int32: 32, types.Int64: 64, types.Int: 64,
		types.Uint8: 8, types.Uint16: 16, types.Uint32: 32, types.Uint64: 64, types.Uint: 64, types.Uintptr: 64,
		types.UntypedInt: 64, types.UntypedRune: 32}
	n, found := bits[b.Kind()]
	if !found {
		return nil, nil, false
	}
	one := big.NewInt(1)
	if b.Info()&types.IsUnsigned != 0 {
		hi = new(big.Int).Sub(new(big.Int).Lsh(one, uint(n)), one)
		return big.NewInt(0), hi, true
	}
	hi = new(big.Int).Sub(new(big.Int).Lsh(one, uint(n-1)), one)
	lo = new(big.Int).Neg(new(big.Int).Lsh(one, uint(n-1)))
	return lo, hi, true
}

func isUnsigned(t types.Type) bool {
	b, ok := types.Unalias(t).Underlying().(*types.Basic)
	return ok && b.Info()&types.IsUnsigned != 0
}

// typeFact returns the type-range / well-formedness fact of a value of Go type t.
func (c *Ctx) typeFact(t types.Type, v Term) Term {
	if lo, hi, ok := intRange(t); ok {
		return and(le(tBig(lo), v), le(v, tBig(hi)))
	}
	switch types.Unalias(t).Underlying().(type) {
	case *types.Slice:
		return and(le(tInt(0), sArr(v)), le(tInt(0), sOff(v)), le(tInt(0), sLen(v)), le(sLen(v), sCap(v)),
			implies(eq(sArr(v), tInt(0)), eq(sCap(v), tInt(0))))
	case *types.Pointer, *types.Map, *types.Chan, *types.Signature, *types.Interface:
		return le(tInt(0), v)
	}
	return tTrue
}

func sortedKeys[V any](m map[string]V) []string {
	var ks []string
	for k := range m {
		ks = append(ks, k)
	}
	sort.Strings(ks)
	return ks
}
