package main

import (
	"go/constant"
	"fmt"
	"go/token"
	"go/types"
	"sort"
	"strconv"
	"strings"

	"golang.org/x/tools/go/ssa"
)

type ghostStmt struct {
	point  string // entry, return, after, before
	callee string
	ord    int // 0 = every occurrence
	name   string
	idx    []Expr // optional index path for ghost maps: name[i][j] := e
	val    Expr
	cond   Expr
	cl     *Clause
}

// ghost at entry: x := e
// ghost after call F#k: x[i] := e  [if cond]
func (t *Tr) setupGhostStmts() {
	if t.ct == nil {
		return
	}
	for _, g := range t.ct.Ghost {
		txt := strings.TrimSpace(g.Text)
		i := strings.Index(txt, ":")
		for i >= 0 && i+1 < len(txt) && txt[i+1] == '=' {
			j := strings.Index(txt[i+2:], ":")
			if j < 0 {
				i = -1
				break
			}
			i = i + 2 + j
		}
		if i < 0 {
			t.unsup("ghost statement without ':' (%s:%d)", g.File, g.Line)
			continue
		}
		head := strings.Fields(txt[:i])
		body := strings.TrimSpace(txt[i+1:])
		gs := &ghostStmt{cl: g}
		switch {
		case len(head) == 2 && head[0] == "at" && (head[1] == "entry" || head[1] == "return"):
			gs.point = head[1]
		case len(head) == 3 && head[0] == "at" && head[1] == "loop":
			gs.point = "loop"
			gs.callee = head[2]
		case len(head) == 3 && (head[0] == "after" || head[0] == "before") && head[1] == "call":
			gs.point = head[0]
			gs.callee, gs.ord = splitOrd(head[2])
		default:
			t.unsup("ghost statement point %q (%s:%d)", txt[:i], g.File, g.Line)
			continue
		}
		if k := strings.Index(body, " if "); k >= 0 {
			ce, err := parseSpecExpr(body[k+4:])
			if err != nil {
				t.unsup("ghost statement condition: %v", err)
				continue
			}
			gs.cond = ce
			body = body[:k]
		}
		as := strings.Index(body, ":=")
		if as < 0 {
			t.unsup("ghost statement without ':=' (%s:%d)", g.File, g.Line)
			continue
		}
		lhs, err := parseSpecExpr(body[:as])
		if err != nil {
			t.unsup("ghost lhs: %v", err)
			continue
		}
		rhs, err := parseSpecExpr(body[as+2:])
		if err != nil {
			t.unsup("ghost rhs: %v", err)
			continue
		}
		// lhs: ghost.x or ghost.x[i][j]
		for {
			if ix, ok := lhs.(*EIndex); ok {
				gs.idx = append([]Expr{ix.I}, gs.idx...)
				lhs = ix.X
				continue
			}
			break
		}
		s, ok := lhs.(*ESel)
		if !ok {
			t.unsup("ghost lhs must be ghost.name")
			continue
		}
		gs.name = s.Name
		gs.val = rhs
		t.ghostAt[gs.point] = append(t.ghostAt[gs.point], gs)
	}
	// entry statements are applied now
	for _, gs := range t.ghostAt["entry"] {
		t.applyGhost(gs, t.baseEnv(t.entrySt), t.entrySt)
	}
}

func splitOrd(s string) (string, int) {
	if i := strings.LastIndex(s, "#"); i >= 0 {
		n, err := strconv.Atoi(s[i+1:])
		if err == nil {
			return s[:i], n
		}
	}
	return s, 0
}

func (t *Tr) applyGhost(gs *ghostStmt, env *Env, st *State) {
	cur, err := env.ghostVar(gs.name)
	if err != nil {
		t.unsup("ghost statement: %v", err)
		return
	}
	var val *SVal
	if call, ok := gs.val.(*ECall); ok {
		if id, ok := call.Fun.(*EIdent); ok && id.Name == "reset" && len(call.Args) == 0 {
			// reset(): the ghost variable's initial value (all false / zero)
			val = &SVal{t.ghostZero(cur.Ty), cur.Ty}
		}
	}
	if val == nil {
		val, err = env.expr(gs.val)
		if err != nil {
			t.unsup("ghost statement (%s:%d): %v", gs.cl.File, gs.cl.Line, err)
			return
		}
	}
	var idx []Term
	for _, ie := range gs.idx {
		iv, err := env.expr(ie)
		if err != nil {
			t.unsup("ghost statement index: %v", err)
			return
		}
		idx = append(idx, iv.T)
	}
	nv := nestedStore(cur.T, idx, val.T)
	if gs.cond != nil {
		cnd, err := env.boolExpr(gs.cond)
		if err != nil {
			t.unsup("ghost statement condition: %v", err)
			return
		}
		nv = ite(cnd, nv, cur.T)
	}
	t.c.set(st, "ghost:"+gs.name, nv)
}

func nestedStore(m Term, idx []Term, v Term) Term {
	if len(idx) == 0 {
		return v
	}
	return store(m, idx[0], nestedStore(sel(m, idx[0]), idx[1:], v))
}

func calleeMatches(pattern, key string) bool {
	if pattern == key {
		return true
	}
	// bare name: last component after '.' (methods) of the key
	if i := strings.LastIndex(key, "."); i >= 0 && key[i+1:] == pattern {
		return true
	}
	// "Type.method" or "(*Type).method"
	if i := strings.Index(key, "."); i >= 0 {
		rest := key[i+1:]
		if rest == pattern {
			return true
		}
		r2 := strings.NewReplacer("(*", "", ")", "").Replace(rest)
		if r2 == pattern {
			return true
		}
	}
	return false
}

// ---------------------------------------------------------------------------

func calleeName(cc *ssa.CallCommon) string {
	if cc.IsInvoke() {
		recv := typeShort(cc.Value.Type())
		return recv + "." + cc.Method.Name()
	}
	switch v := cc.Value.(type) {
	case *ssa.Function:
		if inModule(v) {
			return funcKey(v)
		}
		return v.String()
	case *ssa.MakeClosure:
		return funcKey(v.Fn.(*ssa.Function))
	case *ssa.Builtin:
		return "builtin." + v.Name()
	}
	return "dynamic"
}

func (t *Tr) call(instr ssa.Instruction, cc *ssa.CallCommon, pos token.Pos) *Val {
	if b, ok := cc.Value.(*ssa.Builtin); ok {
		if b.Name() == "append" || b.Name() == "copy" || b.Name() == "delete" {
			bn := calleeName(cc)
			t.callOrd[bn]++
			t.callSiteClauses(bn, t.callOrd[bn], cc, pos)
		}
		return t.builtin(instr, b, cc, pos)
	}
	name := calleeName(cc)
	t.callOrd[name]++
	ord := t.callOrd[name]
	st := t.curSt

	// caller-side typestate obligations and ghost statements "before call"
	t.callSiteClauses(name, ord, cc, pos)
	for _, gs := range t.ghostAt["before"] {
		if calleeMatches(gs.callee, name) && (gs.ord == 0 || gs.ord == ord) {
			t.applyGhost(gs, t.pointEnv(instr, cc), st)
		}
	}
	res := t.callInner(instr, cc, pos, name)
	for _, gs := range t.ghostAt["after"] {
		if calleeMatches(gs.callee, name) && (gs.ord == 0 || gs.ord == ord) {
			env := t.pointEnv(instr, cc)
			if res != nil {
				if len(res.Tup) > 0 {
					for i, r := range res.Tup {
						env.vars[fmt.Sprintf("ret%d", i)] = &SVal{r.T, goT(cc.Signature().Results().At(i).Type())}
					}
				} else if cc.Signature().Results().Len() == 1 {
					env.vars["ret0"] = &SVal{res.T, goT(cc.Signature().Results().At(0).Type())}
				}
			}
			t.applyGhost(gs, env, t.curSt)
		}
	}
	return res
}

func (t *Tr) callInner(instr ssa.Instruction, cc *ssa.CallCommon, pos token.Pos, name string) *Val {
	st := t.curSt
	var callee *ssa.Function
	switch v := cc.Value.(type) {
	case *ssa.Function:
		callee = v
	case *ssa.MakeClosure:
		callee = v.Fn.(*ssa.Function)
	default:
		if !cc.IsInvoke() {
			if x, ok := t.vals[cc.Value]; ok && x.Closure != nil {
				callee = x.Closure.Fn.(*ssa.Function)
			}
		}
	}
	if callee != nil {
		if h, ok := libModels[callee.String()]; ok {
			if r, done := h(t, instr, cc, pos); done {
				return r
			}
		}
		if li, op := t.ms.lockInvFor(cc); op != "" {
			t.lockOp(li, op, cc, pos)
			return nil
		}
	}
	// contract lookup
	var ct *Contract
	var pnames []string
	var ptypes []types.Type
	var args []Term
	if cc.IsInvoke() {
		key := t.ifaceKey(cc)
		ct = t.sp.Contracts[key]
		pnames = append(pnames, "self")
		ptypes = append(ptypes, cc.Value.Type())
		args = append(args, t.term(cc.Value))
		sig := cc.Signature()
		for i := 0; i < sig.Params().Len(); i++ {
			pnames = append(pnames, sig.Params().At(i).Name())
			ptypes = append(ptypes, sig.Params().At(i).Type())
		}
	} else if callee != nil && inModule(callee) {
		ct = t.sp.Contracts[funcKey(callee)]
		for _, p := range callee.Params {
			pnames = append(pnames, p.Name())
			ptypes = append(ptypes, p.Type())
		}
	} else if callee != nil {
		ct = t.sp.Contracts["lib."+callee.String()]
		for _, p := range callee.Params {
			pnames = append(pnames, p.Name())
			ptypes = append(ptypes, p.Type())
		}
		if len(callee.Params) == 0 {
			sig := callee.Signature
			if sig.Recv() != nil {
				pnames = append(pnames, "self")
				ptypes = append(ptypes, sig.Recv().Type())
			}
			for i := 0; i < sig.Params().Len(); i++ {
				n := sig.Params().At(i).Name()
				if n == "" {
					n = fmt.Sprintf("p%d", i)
				}
				pnames = append(pnames, n)
				ptypes = append(ptypes, sig.Params().At(i).Type())
			}
		}
	}
	for _, a := range cc.Args {
		args = append(args, t.term(a))
	}
	pre := st.clone()
	rtypes := cc.Signature().Results()

	if ct != nil && len(pnames) == len(args) {
		if ct.Assumed {
			t.trusted["assumed contract "+ct.Key] = true
		}
		env := &Env{t: t, c: t.c, vars: map[string]*SVal{}, locs: map[string]*Loc{}, st: pre, old: pre, pkg: t.pkgByName(ct.Pkg)}
		if env.pkg == nil && callee != nil && callee.Pkg != nil {
			env.pkg = callee.Pkg.Pkg
		}
		if env.pkg == nil && t.fn.Pkg != nil {
			env.pkg = t.fn.Pkg.Pkg
		}
		for i, n := range pnames {
			env.vars[n] = &SVal{args[i], goT(ptypes[i])}
		}
		for k, r := range ct.Requires {
			g, err := env.boolExpr(r.E)
			if err != nil {
				t.unsup("requires of %s at call: %v", ct.Key, err)
				continue
			}
			lbl := r.Name
			if lbl == "" {
				lbl = fmt.Sprint(k + 1)
			}
			t.addObl("pre", shortCallee(name)+"."+lbl, pos, t.reach[t.curBlk], g, "precondition of "+name+": "+r.Text)
		}
		// frame
		t.havocForCall(cc, ct, env, st)
		res := t.callResults(instr, rtypes, st)
		t.sentinelFacts(cc, rtypes, res)
		penv := *env
		penv.vars = map[string]*SVal{}
		for k, v := range env.vars {
			penv.vars[k] = v
		}
		penv.st = st
		penv.old = pre
		rn := ct.Returns
		if len(rn) == 0 {
			for i := 0; i < rtypes.Len(); i++ {
				n := rtypes.At(i).Name()
				if n == "" || n == "_" {
					if rtypes.Len() == 1 {
						n = "result"
					} else {
						n = fmt.Sprintf("result%d", i)
					}
				}
				rn = append(rn, n)
			}
		}
		if rtypes.Len() == 1 {
			penv.vars[rn[0]] = &SVal{res.T, goT(rtypes.At(0).Type())}
			penv.vars["result"] = penv.vars[rn[0]]
		} else {
			for i := 0; i < rtypes.Len() && i < len(rn); i++ {
				penv.vars[rn[i]] = &SVal{res.Tup[i].T, goT(rtypes.At(i).Type())}
			}
		}
		for _, e := range ct.Ensures {
			g, err := penv.boolExpr(e.E)
			if err != nil {
				t.unsup("ensures of %s at call: %v", ct.Key, err)
				continue
			}
			t.c.assert(implies(t.reach[t.curBlk], g))
		}
		t.assumeGlobalInvs(st, t.reach[t.curBlk])
		return res
	}
	// generated nil-safe getters (protobuf: func (m *T) GetF() X { if m != nil { return m.F }; return zero }) are read
	// for what they are: a field read guarded by a nil test, no effect
	if callee != nil && rtypes.Len() == 1 && !cc.IsInvoke() && len(cc.Args) == 1 {
		if fi, ok := nilSafeGetter(callee); ok {
			recv := t.term(cc.Args[0])
			styp := deref(cc.Args[0].Type())
			comp, _ := t.regField(styp, fi)
			ftyp := styp.Underlying().(*types.Struct).Field(fi).Type()
			val := t.c.locRead(st, &Loc{Kind: "field", Comp: comp, Idx: recv, Typ: ftyp})
			res := t.callResults(instr, rtypes, st)
			if res != nil && res.T.Sort == val.Sort {
				t.c.assert(eq(res.T, ite(eq(recv, tInt(0)), t.c.zero(ftyp), val)))
				t.trusted["generated nil-safe getters are read as a guarded field read (pattern-matched on their SSA body)"] = true
				return res
			}
		}
	}
	// a small, loop-free, effect-free helper of the module without a contract (typically a predicate somebody extracted
	// from the caller) is read for what it computes: its result is the expression its body evaluates to on these arguments
	if callee != nil && rtypes.Len() == 1 && !cc.IsInvoke() && inModule(callee) && t.sp.Contracts[funcKey(callee)] == nil {
		if sum, ok := t.pureSummary(callee, cc.Args, st); ok {
			res := t.callResults(instr, rtypes, st)
			if res != nil && res.T.Sort == sum.Sort {
				t.c.assert(eq(res.T, sum))
				t.trusted["small effect-free helpers without a contract are read as the expression they compute ("+callee.Name()+")"] = true
				return res
			}
		}
	}
	// no contract: havoc the computed frame
	if callee != nil && !inModule(callee) {
		t.trusted["library call "+callee.String()+" (results unconstrained; writes only through slice arguments)"] = true
	} else if cc.IsInvoke() {
		t.trusted["interface call "+name+" (computed frame)"] = true
	}
	t.havocForCall(cc, nil, nil, st)
	res := t.callResults(instr, rtypes, st)
	t.sentinelFacts(cc, rtypes, res)
	// errors from well-known constructors are non-nil
	if callee != nil && rtypes.Len() == 1 && isErrorCtor(callee.String()) {
		if strings.HasPrefix(callee.String(), "google.golang.org/grpc/status.New") {
			t.c.fact(lt(tInt(0), res.T)) // status.New always returns a status object
		} else if strings.HasPrefix(callee.String(), "google.golang.org/grpc/status.Error") && len(cc.Args) > 0 {
			// status.Error(codes.OK, ..) is nil
			t.c.assert(implies(not(eq(t.term(cc.Args[0]), tInt(0))), lt(tInt(0), res.T)))
		} else if (strings.HasSuffix(callee.String(), "errors.Wrap") || strings.HasSuffix(callee.String(), "errors.Wrapf")) && len(cc.Args) > 0 {
			// pkg/errors.Wrap(nil, ..) is nil; anything else is wrapped into a non-nil error
			w := t.term(cc.Args[0])
			t.c.assert(implies(eq(w, tInt(0)), eq(res.T, tInt(0))))
			t.c.assert(implies(not(eq(w, tInt(0))), lt(tInt(0), res.T)))
		} else {
			t.c.fact(lt(tInt(0), res.T))
		}
	}
	t.assumeGlobalInvs(st, t.reach[t.curBlk])
	return res
}

func shortCallee(name string) string {
	if i := strings.Index(name, "."); i >= 0 && !strings.Contains(name[:i], "/") && !strings.HasPrefix(name, "(") {
		return name[i+1:]
	}
	return name
}

// nilSafeGetter recognises, on the SSA body, a method of the exact shape
//
//	func (m *T) GetF() X { if m != nil { return m.F }; return <zero value> }
//
// and returns the index of F.
func nilSafeGetter(fn *ssa.Function) (int, bool) {
	if fn == nil || len(fn.Params) != 1 || len(fn.Blocks) != 3 || fn.Signature.Results().Len() != 1 {
		return 0, false
	}
	recv := fn.Params[0]
	if _, ok := recv.Type().Underlying().(*types.Pointer); !ok {
		return 0, false
	}
	if _, ok := deref(recv.Type()).Underlying().(*types.Struct); !ok {
		return 0, false
	}
	b0 := fn.Blocks[0]
	var instrs []ssa.Instruction
	for _, in := range b0.Instrs {
		if _, dbg := in.(*ssa.DebugRef); !dbg {
			instrs = append(instrs, in)
		}
	}
	if len(instrs) != 2 {
		return 0, false
	}
	cmp, ok := instrs[0].(*ssa.BinOp)
	if !ok || cmp.Op != token.NEQ || cmp.X != ssa.Value(recv) {
		return 0, false
	}
	if c, ok := cmp.Y.(*ssa.Const); !ok || !c.IsNil() {
		return 0, false
	}
	iff, ok := instrs[1].(*ssa.If)
	if !ok || iff.Cond != ssa.Value(cmp) {
		return 0, false
	}
	thenB, elseB := b0.Succs[0], b0.Succs[1]
	var tb []ssa.Instruction
	for _, in := range thenB.Instrs {
		if _, dbg := in.(*ssa.DebugRef); !dbg {
			tb = append(tb, in)
		}
	}
	if len(tb) != 3 {
		return 0, false
	}
	fa, ok := tb[0].(*ssa.FieldAddr)
	if !ok || fa.X != ssa.Value(recv) {
		return 0, false
	}
	ld, ok := tb[1].(*ssa.UnOp)
	if !ok || ld.Op != token.MUL || ld.X != ssa.Value(fa) {
		return 0, false
	}
	ret, ok := tb[2].(*ssa.Return)
	if !ok || len(ret.Results) != 1 || ret.Results[0] != ssa.Value(ld) {
		return 0, false
	}
	var eb []ssa.Instruction
	for _, in := range elseB.Instrs {
		if _, dbg := in.(*ssa.DebugRef); !dbg {
			eb = append(eb, in)
		}
	}
	if len(eb) != 1 {
		return 0, false
	}
	r2, ok := eb[0].(*ssa.Return)
	if !ok || len(r2.Results) != 1 {
		return 0, false
	}
	cst, ok := r2.Results[0].(*ssa.Const)
	if !ok {
		return 0, false
	}
	// the zero value of the result type: nil constant, or a zero/empty basic constant
	if !cst.IsNil() {
		if cst.Value == nil {
			return 0, false
		}
		switch cst.Value.Kind() {
		case constant.Int, constant.Float:
			if constant.Sign(cst.Value) != 0 {
				return 0, false
			}
		case constant.String:
			if constant.StringVal(cst.Value) != "" {
				return 0, false
			}
		case constant.Bool:
			if constant.BoolVal(cst.Value) {
				return 0, false
			}
		default:
			return 0, false
		}
	}
	return fa.Field, true
}

// pureSummary evaluates a loop-free function made only of comparisons, arithmetic, boolean structure (branches and
// phis), conversions between integer types, nil tests, len(), field reads through its pointer arguments and returns;
// anything else (a store, a call, an allocation, a loop, a panic) makes it give up. Values of the body are mapped to
// terms over the caller's arguments and the caller's current state.
func (t *Tr) pureSummary(fn *ssa.Function, args []ssa.Value, st *State) (Term, bool) {
	if fn == nil || len(fn.Blocks) == 0 || len(fn.Blocks) > 12 || len(fn.Params) != len(args) || fn.Signature.Results().Len() != 1 {
		return Term{}, false
	}
	ninstr := 0
	for _, b := range fn.Blocks {
		ninstr += len(b.Instrs)
	}
	if ninstr > 60 {
		return Term{}, false
	}
	// topological order of the blocks; a cycle (loop) makes it give up
	state := map[int]int{}
	var order []*ssa.BasicBlock
	cyclic := false
	var dfs func(b *ssa.BasicBlock)
	dfs = func(b *ssa.BasicBlock) {
		state[b.Index] = 1
		for _, s := range b.Succs {
			switch state[s.Index] {
			case 0:
				dfs(s)
			case 1:
				cyclic = true
			}
		}
		state[b.Index] = 2
		order = append(order, b)
	}
	dfs(fn.Blocks[0])
	if cyclic {
		return Term{}, false
	}
	for i, j := 0, len(order)-1; i < j; i, j = i+1, j-1 {
		order[i], order[j] = order[j], order[i]
	}
	vals := map[ssa.Value]Term{}
	locs := map[ssa.Value]*Loc{}
	for i, p := range fn.Params {
		vals[p] = t.term(args[i])
	}
	get := func(v ssa.Value) (Term, bool) {
		if x, ok := vals[v]; ok {
			return x, true
		}
		if c, ok := v.(*ssa.Const); ok {
			x := t.term(c)
			return x, x.S != ""
		}
		return Term{}, false
	}
	reach := map[int]Term{0: tTrue}
	edge := map[[2]int]Term{}
	var result Term
	haveResult := false
	for _, b := range order {
		r, ok := reach[b.Index]
		if !ok {
			var ins []Term
			for _, p := range b.Preds {
				if e, ok := edge[[2]int{p.Index, b.Index}]; ok {
					ins = append(ins, e)
				}
			}
			if len(ins) == 0 {
				continue
			}
			r = or(ins...)
			reach[b.Index] = r
		}
		for _, in := range b.Instrs {
			switch x := in.(type) {
			case *ssa.DebugRef:
			case *ssa.Phi:
				var acc Term
				first := true
				for i, p := range b.Preds {
					e, ok := edge[[2]int{p.Index, b.Index}]
					if !ok {
						continue
					}
					v, ok := get(x.Edges[i])
					if !ok {
						return Term{}, false
					}
					if first {
						acc, first = v, false
					} else {
						acc = ite(e, v, acc)
					}
				}
				if first {
					return Term{}, false
				}
				vals[x] = acc
			case *ssa.BinOp:
				a, ok1 := get(x.X)
				c, ok2 := get(x.Y)
				if !ok1 || !ok2 {
					return Term{}, false
				}
				switch x.Op {
				case token.QUO, token.REM, token.SHL, token.SHR:
					return Term{}, false // may panic / needs care
				}
				vals[x] = t.binop(x.Op, x.X.Type(), x.Type(), a, c, token.NoPos)
			case *ssa.UnOp:
				switch x.Op {
				case token.NOT:
					a, ok := get(x.X)
					if !ok {
						return Term{}, false
					}
					vals[x] = not(a)
				case token.MUL: // load
					l, ok := locs[x.X]
					if !ok {
						return Term{}, false
					}
					vals[x] = t.c.locRead(st, l)
				default:
					return Term{}, false
				}
			case *ssa.FieldAddr:
				base, ok := get(x.X)
				if !ok {
					return Term{}, false
				}
				styp := deref(x.X.Type())
				sst, ok := styp.Underlying().(*types.Struct)
				if !ok {
					return Term{}, false
				}
				comp, _ := t.regField(styp, x.Field)
				locs[x] = &Loc{Kind: "field", Comp: comp, Idx: base, Typ: sst.Field(x.Field).Type()}
			case *ssa.Convert:
				a, ok := get(x.X)
				if !ok {
					return Term{}, false
				}
				bf, ok1 := x.X.Type().Underlying().(*types.Basic)
				bt, ok2 := x.Type().Underlying().(*types.Basic)
				if !ok1 || !ok2 || bf.Info()&types.IsInteger == 0 || bt.Info()&types.IsInteger == 0 {
					return Term{}, false
				}
				// widening or same-size signed conversions only
				if t.c.sortOf(x.Type()) != SInt || bt.Info()&types.IsUnsigned != bf.Info()&types.IsUnsigned {
					return Term{}, false
				}
				vals[x] = a
			case *ssa.ChangeType:
				a, ok := get(x.X)
				if !ok {
					return Term{}, false
				}
				vals[x] = a
			case *ssa.Call:
				if b, ok := x.Call.Value.(*ssa.Builtin); ok && b.Name() == "len" && len(x.Call.Args) == 1 {
					a, ok := get(x.Call.Args[0])
					if !ok || a.Sort != SSlice {
						return Term{}, false
					}
					vals[x] = sLen(a)
					continue
				}
				return Term{}, false
			case *ssa.If:
				c, ok := get(x.Cond)
				if !ok || len(b.Succs) != 2 {
					return Term{}, false
				}
				edge[[2]int{b.Index, b.Succs[0].Index}] = and(r, c)
				edge[[2]int{b.Index, b.Succs[1].Index}] = and(r, not(c))
			case *ssa.Jump:
				edge[[2]int{b.Index, b.Succs[0].Index}] = r
			case *ssa.Return:
				if len(x.Results) != 1 {
					return Term{}, false
				}
				v, ok := get(x.Results[0])
				if !ok {
					return Term{}, false
				}
				if !haveResult {
					result, haveResult = v, true
				} else {
					result = ite(r, v, result)
				}
			default:
				return Term{}, false
			}
		}
	}
	return result, haveResult
}

func isErrorCtor(name string) bool {
	switch name {
	case "errors.New", "fmt.Errorf", "github.com/pkg/errors.New", "github.com/pkg/errors.Errorf", "github.com/pkg/errors.Wrap", "github.com/pkg/errors.Wrapf",
		"google.golang.org/grpc/status.Error", "google.golang.org/grpc/status.Errorf",
		"google.golang.org/grpc/status.New", "google.golang.org/grpc/status.Newf":
		return true
	}
	return false
}

func (t *Tr) ifaceKey(cc *ssa.CallCommon) string {
	pk := "?"
	tn := typeShort(cc.Value.Type())
	if n, ok := types.Unalias(cc.Value.Type()).(*types.Named); ok {
		if n.Obj().Pkg() != nil {
			pk = n.Obj().Pkg().Name()
		}
		tn = n.Obj().Name()
	}
	return pk + "." + tn + "." + cc.Method.Name()
}

// sentinelFacts: an error returned by a call whose callees cannot reach a frozen sentinel error
// variable is not that sentinel (assumption: sentinel errors do not travel through the heap).
func (t *Tr) sentinelFacts(cc *ssa.CallCommon, rtypes *types.Tuple, res *Val) {
	if res == nil {
		return
	}
	for _, gi := range t.sp.GlobalInvs {
		sp := t.w.SPkgs[gi.Pkg]
		if sp == nil {
			continue
		}
		g, ok := sp.Members[gi.Global].(*ssa.Global)
		if !ok || deref(g.Type()).String() != "error" || !t.ms.frozenOK(gi) {
			continue
		}
		if !t.ms.cannotReturnGlobal(cc, gi.Pkg+"."+gi.Global) {
			continue
		}
		comp := compGlobal(gi.Pkg, gi.Global)
		t.c.regComp(comp, SInt)
		gv := t.c.get(t.curSt, comp)
		for i := 0; i < rtypes.Len(); i++ {
			if rtypes.At(i).Type().String() != "error" {
				continue
			}
			r := res
			if rtypes.Len() > 1 {
				r = res.Tup[i]
			}
			t.c.assert(or(eq(r.T, tInt(0)), not(eq(r.T, gv))))
			t.trusted["sentinel errors ("+gi.Pkg+"."+gi.Global+" ...) are only produced by functions that reference them (they do not travel through the heap)"] = true
		}
	}
}

func (t *Tr) callResults(instr ssa.Instruction, rtypes *types.Tuple, st *State) *Val {
	name := "call"
	if v, ok := instr.(ssa.Value); ok {
		name = v.Name()
	}
	switch rtypes.Len() {
	case 0:
		return nil
	case 1:
		r := t.havocVal(name, rtypes.At(0).Type())
		t.allocFact(st, rtypes.At(0).Type(), r.T)
		return r
	}
	v := &Val{KnownLen: -1}
	for i := 0; i < rtypes.Len(); i++ {
		r := t.havocVal(fmt.Sprintf("%s.%d", name, i), rtypes.At(i).Type())
		t.allocFact(st, rtypes.At(i).Type(), r.T)
		v.Tup = append(v.Tup, r)
	}
	return v
}

// havocForCall applies the frame of a call to st.
func (t *Tr) havocForCall(cc *ssa.CallCommon, ct *Contract, env *Env, st *State) {
	c := t.c
	oldAlloc := c.get(st, compAlloc)
	computed := ct == nil || !ct.HasMod
	if ct != nil && ct.HasMod {
		for _, m := range ct.Modifies {
			if m == "computed" {
				computed = true
				continue
			}
			if err := t.havocTarget(m, env, st); err != nil {
				t.unsup("modifies %q of %s: %v", m, ct.Key, err)
			}
		}
	}
	if !computed && ct != nil && ct.Assumed {
		// an assumed (library) contract's frame does not cover what a closure handed to the library
		// writes when it is called back: havoc the closure's own mod-set as well
		var extra []string
		for _, a := range cc.Args {
			if mc, ok := a.(*ssa.MakeClosure); ok {
				extra = append(extra, t.ms.modsVisible(mc.Fn.(*ssa.Function), t.fn)...)
			}
		}
		// `preserves` clauses of the closures handed over: true before the call => true after it (each call-back
		// preserves them, proved on the closure's body; the library cannot touch the captured cells)
		type pres struct {
			e    Expr
			cond Term
		}
		var keeps []pres
		for _, a := range cc.Args {
			mc, ok := a.(*ssa.MakeClosure)
			if !ok {
				continue
			}
			if cct := t.sp.Contracts[funcKey(mc.Fn.(*ssa.Function))]; cct != nil {
				for _, pc := range cct.Preserves {
					penv := t.pointEnv(nil, cc)
					if g, err := penv.boolExpr(pc.E); err == nil {
						keeps = append(keeps, pres{pc.E, g})
					} else {
						t.unsup("preserves clause of %s at call site: %v", cct.Key, err)
					}
				}
			}
		}
		defer func() {
			for _, k := range keeps {
				penv := t.pointEnv(nil, cc)
				if g, err := penv.boolExpr(k.e); err == nil {
					t.c.assert(implies(k.cond, g))
				}
			}
		}()
		sort.Strings(extra)
		pre := map[string]Term{}
		for _, m := range extra {
			if m == compAlloc {
				continue
			}
			t.ensureComp(m)
			if _, ok := c.compSort[m]; ok {
				if _, seen := pre[m]; !seen {
					pre[m] = c.get(st, m)
				}
				c.havoc(st, m)
			}
		}
		// an error cell the closure writes holds nil or an error the closure can produce: not a sentinel
		// that the closure (and what it calls) never references
		for _, a := range cc.Args {
			mc, ok := a.(*ssa.MakeClosure)
			if !ok {
				continue
			}
			for _, b := range mc.Bindings {
				al, ok := b.(*ssa.Alloc)
				if !ok || deref(al.Type()).String() != "error" {
					continue
				}
				cn := cellName(al)
				oldv, ok := pre[cn]
				if !ok {
					continue
				}
				for _, gi := range t.sp.GlobalInvs {
					sp := t.w.SPkgs[gi.Pkg]
					if sp == nil {
						continue
					}
					g, ok := sp.Members[gi.Global].(*ssa.Global)
					if !ok || deref(g.Type()).String() != "error" || !t.ms.frozenOK(gi) {
						continue
					}
					if t.ms.globalUse[mc.Fn.(*ssa.Function)][gi.Pkg+"."+gi.Global] {
						continue
					}
					comp := compGlobal(gi.Pkg, gi.Global)
					c.regComp(comp, SInt)
					cv := c.get(st, cn)
					// the cell keeps its old value or receives such an error
					c.assert(or(eq(cv, tInt(0)), not(eq(cv, c.get(st, comp))), eq(cv, oldv)))
					t.trusted["sentinel errors ("+gi.Pkg+"."+gi.Global+" ...) are only produced by functions that reference them (they do not travel through the heap)"] = true
				}
			}
		}
	}
	if computed {
		mods := t.ms.callMods(t.fn, cc)
		seen := map[string]bool{}
		sort.Strings(mods)
		for _, m := range mods {
			if seen[m] || m == compAlloc {
				continue
			}
			seen[m] = true
			t.ensureComp(m)
			if _, ok := c.compSort[m]; ok {
				c.havoc(st, m)
			}
		}
	}
	na := c.havoc(st, compAlloc)
	c.assert(le(oldAlloc, na))
}

// havocTarget: one entry of a modifies clause.
//   x.f          field f of object x only
//   elems(s)     the elements of slice s (its whole backing array)
//   mapof(m)     the entries of map m
//   ghost.g      ghost variable g
//   all(T.f)     field f of every object of type T (whole component)
func (t *Tr) havocTarget(m string, env *Env, st *State) error {
	c := t.c
	e, err := parseSpecExpr(m)
	if err != nil {
		return err
	}
	switch n := e.(type) {
	case *ESel:
		if id, ok := n.X.(*EIdent); ok && id.Name == "ghost" {
			if _, err := env.ghostVar(n.Name); err != nil {
				return err
			}
			c.havoc(st, "ghost:"+n.Name)
			return nil
		}
		obj, err := env.expr(n.X)
		if err != nil {
			return err
		}
		if obj.Ty == nil || obj.Ty.Go == nil {
			return fmt.Errorf("untyped object")
		}
		styp := deref(obj.Ty.Go)
		su, ok := styp.Underlying().(*types.Struct)
		if !ok {
			return fmt.Errorf("%s is not a struct pointer", m)
		}
		for i := 0; i < su.NumFields(); i++ {
			if su.Field(i).Name() == n.Name {
				comp, _ := t.regField(styp, i)
				cur := c.get(st, comp)
				fv := c.fresh(comp+"!", arrayValSort(cur.Sort))
				c.fact(c.typeFact(su.Field(i).Type(), fv))
				t.c.set(st, comp, store(cur, obj.T, fv))
				return nil
			}
		}
		return fmt.Errorf("no field %s", n.Name)
	case *ECall:
		id, _ := n.Fun.(*EIdent)
		if id == nil || len(n.Args) != 1 {
			return fmt.Errorf("bad modifies target")
		}
		switch id.Name {
		case "elems":
			s, err := env.expr(n.Args[0])
			if err != nil {
				return err
			}
			sl, ok := s.Ty.Go.Underlying().(*types.Slice)
			if !ok {
				return fmt.Errorf("elems of non-slice")
			}
			comp := t.regElem(sl.Elem())
			cur := c.get(st, comp)
			t.c.set(st, comp, store(cur, sArr(s.T), c.fresh(comp+"!", arrayValSort(cur.Sort))))
			return nil
		case "mapof":
			mv, err := env.expr(n.Args[0])
			if err != nil {
				return err
			}
			t.regMap(mv.Ty.Go)
			for _, comp := range []string{compMapDom(mv.Ty.Go), compMapVal(mv.Ty.Go), compMapLen(mv.Ty.Go)} {
				cur := c.get(st, comp)
				t.c.set(st, comp, store(cur, mv.T, c.fresh(comp+"!", arrayValSort(cur.Sort))))
			}
			return nil
		case "all":
			s, ok := n.Args[0].(*ESel)
			if !ok {
				return fmt.Errorf("all(T.f)")
			}
			tid, _ := s.X.(*EIdent)
			if tid == nil {
				return fmt.Errorf("all(T.f)")
			}
			ty, err := env.resolveType(tid.Name)
			if err != nil {
				return err
			}
			su, ok := ty.Go.Underlying().(*types.Struct)
			if !ok {
				return fmt.Errorf("all: not a struct")
			}
			for i := 0; i < su.NumFields(); i++ {
				if su.Field(i).Name() == s.Name {
					comp, _ := t.regField(ty.Go, i)
					c.havoc(st, comp)
					return nil
				}
			}
			return fmt.Errorf("no field %s", s.Name)
		case "allelems":
			ty, err := env.resolveType(exprText(n.Args[0]))
			if err != nil {
				return err
			}
			comp := t.regElem(ty.Go)
			c.havoc(st, comp)
			return nil
		}
	}
	return fmt.Errorf("unsupported modifies target %q", m)
}

func exprText(e Expr) string {
	switch n := e.(type) {
	case *EIdent:
		return n.Name
	case *EUnary:
		return n.Op + exprText(n.X)
	case *ESel:
		return exprText(n.X) + "." + n.Name
	}
	return "?"
}

// ---------------------------------------------------------------------------
// builtins

func (t *Tr) builtin(instr ssa.Instruction, b *ssa.Builtin, cc *ssa.CallCommon, pos token.Pos) *Val {
	c := t.c
	st := t.curSt
	switch b.Name() {
	case "len", "cap":
		a := cc.Args[0]
		av := t.val(a)
		switch u := a.Type().Underlying().(type) {
		case *types.Slice:
			if b.Name() == "cap" {
				return &Val{T: sCap(av.T), KnownLen: -1}
			}
			return &Val{T: sLen(av.T), KnownLen: -1}
		case *types.Basic:
			return &Val{T: app("str.len", SInt, av.T), KnownLen: -1}
		case *types.Map:
			t.regMap(a.Type())
			r := sel(c.get(st, compMapLen(a.Type())), av.T)
			c.fact(le(tInt(0), r))
			return &Val{T: ite(eq(av.T, tInt(0)), tInt(0), r), KnownLen: -1}
		case *types.Pointer:
			if at, ok := u.Elem().Underlying().(*types.Array); ok {
				return &Val{T: tInt(at.Len()), KnownLen: -1}
			}
		case *types.Array:
			return &Val{T: tInt(u.Len()), KnownLen: -1}
		case *types.Chan:
			r := t.havocVal("chanlen", types.Typ[types.Int])
			c.assert(le(tInt(0), r.T))
			return r
		}
	case "append":
		return t.appendBuiltin(instr, cc, pos)
	case "copy":
		return t.copyBuiltin(cc, pos)
	case "delete":
		mt := cc.Args[0].Type()
		t.regMap(mt)
		m := t.term(cc.Args[0])
		k := t.term(cc.Args[1])
		dom, ln := c.get(st, compMapDom(mt)), c.get(st, compMapLen(mt))
		had := t.mapHas(st, mt, m, k)
		t.c.set(st, compMapLen(mt), store(ln, m, ite(had, sub(sel(ln, m), tInt(1)), sel(ln, m))))
		t.c.set(st, compMapDom(mt), store(dom, m, store(sel(dom, m), k, tFalse)))
		return nil
	case "min", "max":
		a, bb := t.term(cc.Args[0]), t.term(cc.Args[1])
		if b.Name() == "min" {
			return &Val{T: ite(le(a, bb), a, bb), KnownLen: -1}
		}
		return &Val{T: ite(le(a, bb), bb, a), KnownLen: -1}
	case "close", "print", "println":
		return nil
	case "recover":
		return &Val{T: tInt(0), KnownLen: -1}
	case "ssa:wrapnilchk":
		return t.val(cc.Args[0])
	}
	t.unsup("builtin %s", b.Name())
	if v, ok := instr.(ssa.Value); ok {
		return t.havocVal(v.Name(), v.Type())
	}
	return nil
}

func (t *Tr) appendBuiltin(instr ssa.Instruction, cc *ssa.CallCommon, pos token.Pos) *Val {
	c := t.c
	st := t.curSt
	s := t.term(cc.Args[0])
	ev := t.val(cc.Args[1])
	var elemT types.Type
	if sl, ok := cc.Args[0].Type().Underlying().(*types.Slice); ok {
		elemT = sl.Elem()
	} else {
		return t.havocVal("append", cc.Args[0].Type())
	}
	comp := t.regElem(elemT)
	es := c.sortOf(elemT)
	mem := c.get(st, comp)
	var addLen Term
	isStr := false
	if _, ok := cc.Args[1].Type().Underlying().(*types.Basic); ok {
		isStr = true
		addLen = app("str.len", SInt, ev.T)
	} else {
		addLen = sLen(ev.T)
	}
	newLen := add(sLen(s), addLen)
	inPlace := le(newLen, sCap(s))
	fresh := t.newRef(st)
	newCap := c.fresh("appendcap", SInt)
	c.assert(le(newLen, newCap))
	// contents of the result's backing array
	resArr := c.fresh("appendarr", arrSort(SInt, es))
	srcArr := sel(mem, sArr(s))
	base := ite(inPlace, sOff(s), tInt(0))
	q := sym("q!j")
	// absolute index j into the result's backing array:
	//   base <= j < base+len(s)            : old elements
	//   base+len(s) <= j < base+newLen     : appended elements
	//   otherwise (in place only)          : unchanged
	var appended string
	if isStr {
		appended = fmt.Sprintf("(str.to_code (str.at %s (- %s (+ %s %s))))", ev.T.S, q, base.S, sLen(s).S)
	} else {
		eArr := sel(mem, sArr(ev.T))
		appended = fmt.Sprintf("(select %s (+ %s (- %s (+ %s %s))))", eArr.S, sOff(ev.T).S, q, base.S, sLen(s).S)
	}
	c.assert(Term{fmt.Sprintf("(forall ((%s Int)) (! (=> (and (<= %s %s) (< %s (+ %s %s))) (= (select %s %s) (select %s (+ %s (- %s %s))))) :pattern ((select %s %s))))",
		q, base.S, q, q, base.S, sLen(s).S, resArr.S, q, srcArr.S, sOff(s).S, q, base.S, resArr.S, q), SBool})
	c.assert(Term{fmt.Sprintf("(forall ((%s Int)) (! (=> (and (<= (+ %s %s) %s) (< %s (+ %s %s))) (= (select %s %s) %s)) :pattern ((select %s %s))))",
		q, base.S, sLen(s).S, q, q, base.S, newLen.S, resArr.S, q, appended, resArr.S, q), SBool})
	c.assert(implies(inPlace, Term{fmt.Sprintf("(forall ((%s Int)) (! (=> (or (< %s %s) (>= %s (+ %s %s))) (= (select %s %s) (select %s %s))) :pattern ((select %s %s))))",
		q, q, base.S, q, base.S, newLen.S, resArr.S, q, srcArr.S, q, resArr.S, q), SBool}))
	if ev.KnownLen >= 0 && !isStr {
		eArr := sel(mem, sArr(ev.T))
		for j := 0; j < ev.KnownLen; j++ {
			c.assert(eq(sel(resArr, add(add(base, sLen(s)), tInt(int64(j)))), sel(eArr, add(sOff(ev.T), tInt(int64(j))))))
		}
	}
	rarr := ite(inPlace, sArr(s), fresh)
	// appending to a nil/zero-cap slice with zero elements keeps it as is; approximated by the general rule
	t.c.set(st, comp, store(mem, rarr, resArr))
	res := mkSlice(rarr, base, newLen, ite(inPlace, sCap(s), newCap))
	nm := "append"
	if v, ok := instr.(ssa.Value); ok {
		nm = v.Name()
	}
	r := c.declConst(nm, SSlice)
	c.assert(eq(r, res))
	return &Val{T: r, KnownLen: -1}
}

func (t *Tr) copyBuiltin(cc *ssa.CallCommon, pos token.Pos) *Val {
	c := t.c
	st := t.curSt
	dst := t.term(cc.Args[0])
	sl, ok := cc.Args[0].Type().Underlying().(*types.Slice)
	if !ok {
		return t.havocVal("copy", types.Typ[types.Int])
	}
	comp := t.regElem(sl.Elem())
	es := c.sortOf(sl.Elem())
	mem := c.get(st, comp)
	var srcLen Term
	var srcAt func(i string) string
	if _, isStr := cc.Args[1].Type().Underlying().(*types.Basic); isStr {
		s := t.term(cc.Args[1])
		srcLen = app("str.len", SInt, s)
		srcAt = func(i string) string { return fmt.Sprintf("(str.to_code (str.at %s %s))", s.S, i) }
	} else {
		src := t.term(cc.Args[1])
		srcLen = sLen(src)
		sa := sel(mem, sArr(src))
		srcAt = func(i string) string { return fmt.Sprintf("(select %s (+ %s %s))", sa.S, sOff(src).S, i) }
	}
	n := c.fresh("copyn", SInt)
	c.assert(eq(n, ite(le(sLen(dst), srcLen), sLen(dst), srcLen)))
	resArr := c.fresh("copyarr", arrSort(SInt, es))
	old := sel(mem, sArr(dst))
	q := sym("q!j")
	// one clause, absolute index: inside the window the source element, outside the old content
	c.assert(Term{fmt.Sprintf("(forall ((%s Int)) (! (= (select %s %s) (ite (and (<= %s %s) (< %s (+ %s %s))) %s (select %s %s))) :pattern ((select %s %s))))",
		q, resArr.S, q, sOff(dst).S, q, q, sOff(dst).S, n.S, srcAt(fmt.Sprintf("(- %s %s)", q, sOff(dst).S)), old.S, q, resArr.S, q), SBool})
	t.c.set(st, comp, store(mem, sArr(dst), resArr))
	return &Val{T: n, KnownLen: -1}
}

// ---------------------------------------------------------------------------
// go / defer

func (t *Tr) goStmt(x *ssa.Go) {
	// sequential abstraction: spawning has no effect on the spawner's state; the callee's
	// precondition (if it has a contract) must hold at the spawn point.
	cc := x.Common()
	name := calleeName(cc)
	t.callOrd[name]++
	t.callSiteClauses(name, t.callOrd[name], cc, x.Pos())
	var callee *ssa.Function
	switch v := cc.Value.(type) {
	case *ssa.Function:
		callee = v
	case *ssa.MakeClosure:
		callee = v.Fn.(*ssa.Function)
	}
	if callee == nil || !inModule(callee) {
		return
	}
	ct := t.sp.Contracts[funcKey(callee)]
	if ct == nil {
		return
	}
	env := &Env{t: t, c: t.c, vars: map[string]*SVal{}, locs: map[string]*Loc{}, st: t.curSt, old: t.curSt, pkg: t.pkgByName(ct.Pkg)}
	for i, p := range callee.Params {
		if i < len(cc.Args) {
			env.vars[p.Name()] = &SVal{t.term(cc.Args[i]), goT(p.Type())}
		}
	}
	for k, r := range ct.Requires {
		g, err := env.boolExpr(r.E)
		if err != nil {
			continue
		}
		t.addObl("pre", shortCallee(name)+"."+fmt.Sprint(k+1), x.Pos(), t.reach[t.curBlk], g, "precondition of spawned "+name+": "+r.Text)
	}
}

func (t *Tr) runDefers(x *ssa.RunDefers) {
	for i := len(t.defers) - 1; i >= 0; i-- {
		d := t.defers[i]
		if d.blk.Dominates(t.curBlk) {
			t.call(d.d, d.d.Common(), d.d.Pos())
			continue
		}
		// conditional defer: effect guarded by whether the defer statement was reached
		before := t.curSt.clone()
		savedReach := t.reach[t.curBlk]
		g := t.c.fresh("deferred", SBool)
		t.c.assert(eq(g, and(savedReach, d.reach)))
		t.reach[t.curBlk] = g
		t.call(d.d, d.d.Common(), d.d.Pos())
		t.reach[t.curBlk] = savedReach
		after := t.curSt
		merged := t.c.mergeStates("defer", []Term{d.reach, not(d.reach)}, []*State{after, before})
		t.curSt = merged
	}
}

// ---------------------------------------------------------------------------
// locks

func (t *Tr) lockOp(li *LockInv, op string, cc *ssa.CallCommon, pos token.Pos) {
	if li == nil {
		return // mutex without a declared invariant: no effect in the sequential abstraction
	}
	c := t.c
	st := t.curSt
	fa := cc.Args[0].(*ssa.FieldAddr)
	obj := t.term(fa.X)
	styp := deref(fa.X.Type())
	mk := func(s *State) (*Env, error) {
		env := &Env{t: t, c: c, vars: map[string]*SVal{"self": {obj, goT(fa.X.Type())}}, locs: map[string]*Loc{}, st: s, old: t.entrySt, pkg: t.pkgByName(li.Pkg)}
		return env, nil
	}
	switch op {
	case "lock", "rlock":
		su := styp.Underlying().(*types.Struct)
		for _, g := range li.Guards {
			if strings.HasPrefix(g, "ghost.") {
				// ghost state protected by the lock: other threads may have changed it
				env0 := &Env{t: t, c: c, vars: map[string]*SVal{}, locs: map[string]*Loc{}, st: st, old: st, pkg: t.pkgByName(li.Pkg)}
				if _, err := env0.ghostVar(g[6:]); err == nil {
					c.havoc(st, "ghost:"+g[6:])
				}
				continue
			}
			for i := 0; i < su.NumFields(); i++ {
				if su.Field(i).Name() == g {
					comp, ft := t.regField(styp, i)
					cur := c.get(st, comp)
					fv := c.fresh(comp+"!lk", arrayValSort(cur.Sort))
					c.fact(c.typeFact(ft, fv))
					t.allocFact(st, ft, fv)
					t.c.set(st, comp, store(cur, obj, fv))
				}
			}
		}
		env, _ := mk(st)
		g, err := env.boolExpr(li.E)
		if err != nil {
			t.unsup("lock invariant %s.%s: %v", li.Type, li.Mutex, err)
			return
		}
		c.assert(implies(t.reach[t.curBlk], g))
	case "unlock", "runlock":
		env, _ := mk(st)
		g, err := env.boolExpr(li.E)
		if err != nil {
			t.unsup("lock invariant %s.%s: %v", li.Type, li.Mutex, err)
			return
		}
		o := t.addObl("unlock-inv", li.Type+"."+li.Mutex, pos, t.reach[t.curBlk], g, "lock invariant re-established at unlock: "+li.Text)
		if o != nil && len(li.Serves) > 0 {
			o.Prop = li.Serves
		}
	}
}

// ---------------------------------------------------------------------------
// call-site clauses:  call <callee>[#k] requires <expr>

// pseudoCall: channel sends are treated like calls of "send.<channel variable>"(chan, value) so that
// call-site clauses and ghost statements can be attached to them.
func (t *Tr) pseudoCall(ch ssa.Value, val ssa.Value, pos token.Pos) {
	t.pseudoCallNamed("send."+chanName(ch), []ssa.Value{ch, val}, pos)
}

func (t *Tr) pseudoCallNamed(name string, args []ssa.Value, pos token.Pos) {
	t.callOrd[name]++
	t.pseudoArgs = args
	t.callSiteClauses(name, t.callOrd[name], nil, pos)
	for _, gs := range t.ghostAt["after"] {
		if calleeMatches(gs.callee, name) && (gs.ord == 0 || gs.ord == t.callOrd[name]) {
			t.applyGhost(gs, t.pointEnv(nil, nil), t.curSt)
		}
	}
	t.pseudoArgs = nil
}

func chanName(ch ssa.Value) string {
	switch x := ch.(type) {
	case *ssa.FreeVar:
		return x.Name()
	case *ssa.Parameter:
		return x.Name()
	case *ssa.UnOp:
		if fv, ok := x.X.(*ssa.FreeVar); ok {
			return fv.Name()
		}
		if a, ok := x.X.(*ssa.Alloc); ok && a.Comment != "" {
			return a.Comment
		}
		if fa, ok := x.X.(*ssa.FieldAddr); ok {
			return deref(fa.X.Type()).Underlying().(*types.Struct).Field(fa.Field).Name()
		}
	}
	// a local channel: the source variable it was assigned to (debug reference)
	if refs := ch.Referrers(); refs != nil {
		for _, r := range *refs {
			if d, ok := r.(*ssa.DebugRef); ok && d.X == ch {
				if obj := d.Object(); obj != nil && obj.Name() != "" && obj.Name() != "_" {
					return obj.Name()
				}
			}
		}
	}
	return "chan"
}

func (t *Tr) callSiteClauses(name string, ord int, cc *ssa.CallCommon, pos token.Pos) {
	if t.ct == nil || !t.verify {
		return
	}
	// the clauses of one call site are all checked against the state before the call and only then assumed: a clause
	// assumed at once would mask an identical clause that another property states for the same call (its path
	// condition would become unsatisfiable as soon as the first is violated)
	var checked []Term
	defer func() {
		for _, g := range checked {
			t.c.assert(g)
		}
	}()
	for _, cl := range t.ct.Calls {
		f := strings.Fields(cl.Text)
		if len(f) < 3 || f[1] != "requires" {
			t.unsup("call clause syntax (%s:%d)", cl.File, cl.Line)
			continue
		}
		pat, k := splitOrd(f[0])
		if !calleeMatches(pat, name) || (k != 0 && k != ord) {
			continue
		}
		if t.clauseHits == nil {
			t.clauseHits = map[*Clause]int{}
		}
		t.clauseHits[cl]++
		txt := strings.TrimSpace(strings.TrimPrefix(strings.TrimSpace(strings.TrimPrefix(cl.Text, f[0])), "requires"))
		label := ""
		if strings.HasPrefix(txt, "[") {
			if j := strings.Index(txt, "]"); j > 0 && !strings.ContainsAny(txt[1:j], " ()") {
				label = txt[1:j]
				txt = strings.TrimSpace(txt[j+1:])
			}
		}
		e, err := parseSpecExpr(txt)
		if err != nil {
			t.unsup("call clause (%s:%d): %v", cl.File, cl.Line, err)
			continue
		}
		env := t.pointEnv(nil, cc)
		g, err := env.boolExpr(e)
		if err != nil {
			t.unsup("call clause (%s:%d): %v", cl.File, cl.Line, err)
			continue
		}
		sfx := shortCallee(name)
		if label != "" {
			sfx += "." + label
		}
		t.addObl("call", sfx, pos, t.reach[t.curBlk], g, "at call of "+name+": "+txt)
		// once checked, the clause is available to later obligations (it doubles as a proof hint)
		checked = append(checked, implies(t.reach[t.curBlk], g))
	}
}

// pointEnv: the source variables visible at the current program point.
func (t *Tr) pointEnv(instr ssa.Instruction, cc *ssa.CallCommon) *Env {
	e := t.baseEnv(t.curSt)
	cur := t.curBlk
	for _, b := range t.order {
		if _, done := t.reach[b]; !done {
			continue
		}
		if !b.Dominates(cur) {
			continue
		}
		for _, in := range b.Instrs {
			if b == cur && instr != nil && in == instr {
				break
			}
			switch x := in.(type) {
			case *ssa.Phi:
				if x.Comment != "" {
					if v, ok := t.vals[x]; ok && v.T.S != "" {
						delete(e.locs, x.Comment)
						e.vars[x.Comment] = &SVal{v.T, goT(x.Type())}
					}
				}
			case *ssa.Alloc:
				if x.Comment != "" {
					t.bindVar(e, x.Comment, x, true)
				}
			case *ssa.DebugRef:
				if obj := x.Object(); obj != nil {
					if v, isVar := obj.(*types.Var); isVar && !v.IsField() {
						t.bindVar(e, obj.Name(), x.X, x.IsAddr)
					}
				}
			}
		}
	}
	if cc == nil && t.pseudoArgs != nil {
		for i, a := range t.pseudoArgs {
			e.vars[fmt.Sprintf("arg%d", i)] = &SVal{t.term(a), goT(a.Type())}
		}
	}
	if cc != nil {
		n := 0
		if cc.IsInvoke() {
			e.vars["arg0"] = &SVal{t.term(cc.Value), goT(cc.Value.Type())}
			n = 1
		}
		for i, a := range cc.Args {
			e.vars[fmt.Sprintf("arg%d", i+n)] = &SVal{t.term(a), goT(a.Type())}
		}
	}
	return e
}

// ---------------------------------------------------------------------------
// global invariants (frozen package-level tables)

func (t *Tr) assumeGlobalInvs(st *State, guard Term) {
	// frozen sentinel errors of one package are distinct values (each is a separate errors.New result)
	var sent []Term
	for _, gi := range t.sp.GlobalInvs {
		sp := t.w.SPkgs[gi.Pkg]
		if sp == nil || t.key == gi.Pkg+".init" {
			continue
		}
		if g, ok := sp.Members[gi.Global].(*ssa.Global); ok && deref(g.Type()).String() == "error" && t.ms.frozenOK(gi) {
			comp := compGlobal(gi.Pkg, gi.Global)
			t.c.regComp(comp, SInt)
			sent = append(sent, t.c.get(st, comp))
		}
	}
	if len(sent) > 1 {
		t.c.assert(implies(guard, app("distinct", SBool, sent...)))
		t.trusted["package-level sentinel errors are pairwise distinct (separate errors.New results)"] = true
	}
	for _, gi := range t.sp.GlobalInvs {
		if !t.ms.frozenOK(gi) {
			continue
		}
		env := &Env{t: t, c: t.c, vars: map[string]*SVal{}, locs: map[string]*Loc{}, st: st, old: st, pkg: t.pkgByName(gi.Pkg)}
		if t.key == gi.Pkg+".init" {
			continue
		}
		g, err := env.boolExpr(gi.E)
		if err != nil {
			t.unsup("globalinv %s: %v", gi.Global, err)
			continue
		}
		t.c.assert(implies(guard, g))
		t.trusted["package-level table "+gi.Pkg+"."+gi.Global+" is never written after init (checked syntactically)"] = true
	}
}

// frameObligations: with an explicit modifies clause, everything else must be unchanged at exit.
func (t *Tr) frameObligations() {
	ct := t.ct
	if ct == nil || !ct.HasMod {
		return
	}
	c := t.c
	env0 := t.entryEnv(t.entrySt)
	// collect allowed targets
	type tgt struct {
		comp string
		obj  *Term
	}
	var allowed []tgt
	for _, m := range ct.Modifies {
		if m == "computed" {
			return // the computed frame is allowed as a whole: nothing to check
		}
		e, err := parseSpecExpr(m)
		if err != nil {
			continue
		}
		switch n := e.(type) {
		case *ESel:
			if id, ok := n.X.(*EIdent); ok && id.Name == "ghost" {
				allowed = append(allowed, tgt{"ghost:" + n.Name, nil})
				continue
			}
			obj, err := env0.expr(n.X)
			if err != nil || obj.Ty == nil || obj.Ty.Go == nil {
				t.unsup("modifies %s: cannot resolve", m)
				continue
			}
			styp := deref(obj.Ty.Go)
			if su, ok := styp.Underlying().(*types.Struct); ok {
				for i := 0; i < su.NumFields(); i++ {
					if su.Field(i).Name() == n.Name {
						comp, _ := t.regField(styp, i)
						o := obj.T
						allowed = append(allowed, tgt{comp, &o})
					}
				}
			}
		case *ECall:
			id, _ := n.Fun.(*EIdent)
			if id == nil {
				continue
			}
			switch id.Name {
			case "elems":
				s, err := env0.expr(n.Args[0])
				if err != nil {
					continue
				}
				if sl, ok := s.Ty.Go.Underlying().(*types.Slice); ok {
					a := sArr(s.T)
					allowed = append(allowed, tgt{t.regElem(sl.Elem()), &a})
				}
			case "mapof":
				mv, err := env0.expr(n.Args[0])
				if err != nil {
					continue
				}
				o := mv.T
				for _, comp := range []string{compMapDom(mv.Ty.Go), compMapVal(mv.Ty.Go), compMapLen(mv.Ty.Go)} {
					allowed = append(allowed, tgt{comp, &o})
				}
			case "all":
				if s, ok := n.Args[0].(*ESel); ok {
					if tid, ok := s.X.(*EIdent); ok {
						if ty, err := env0.resolveType(tid.Name); err == nil {
							allowed = append(allowed, tgt{compField(ty.Go, s.Name), nil})
						}
					}
				}
			case "allelems":
				if ty, err := env0.resolveType(exprText(n.Args[0])); err == nil {
					allowed = append(allowed, tgt{compElem(ty.Go), nil})
				}
			}
		}
	}
	// every component changed in some exit state
	changed := map[string]bool{}
	for _, r := range t.rets {
		for k, v := range r.st.comps {
			if k == compAlloc || strings.HasPrefix(k, "L:") {
				continue
			}
			if v.S != c.initial(k).S {
				changed[k] = true
			}
		}
	}
	alloc0 := c.initial(compAlloc)
	for _, k := range sortedKeys(changed) {
		whole := false
		var objs []Term
		for _, a := range allowed {
			if a.comp == k {
				if a.obj == nil {
					whole = true
				} else {
					objs = append(objs, *a.obj)
				}
			}
		}
		if whole {
			continue
		}
		init := c.initial(k)
		var parts []Term
		for _, r := range t.rets {
			fin := c.get(r.st, k)
			var g Term
			if _, isArr := c.compSort[k]; isArr && strings.HasPrefix(string(c.compSort[k]), "(Array Int") {
				q := sym("q!o")
				var ex []string
				for _, o := range objs {
					ex = append(ex, fmt.Sprintf("(not (= %s %s))", q, o.S))
				}
				cond := fmt.Sprintf("(and (< %s %s) %s)", q, alloc0.S, strings.Join(ex, " "))
				g = Term{fmt.Sprintf("(forall ((%s Int)) (=> %s (= (select %s %s) (select %s %s))))", q, cond, fin.S, q, init.S, q), SBool}
			} else {
				g = eq(fin, init)
			}
			parts = append(parts, implies(r.reach, g))
		}
		t.addObl("frame", k, t.fn.Pos(), tTrue, and(parts...), "nothing outside the modifies clause changes in "+k)
	}
}

// ghostZero: the all-zero value of a ghost type (nested constant arrays).
func (t *Tr) ghostZero(ty *SType) Term {
	if ty.Key != nil {
		s := t.c.sortOfS(ty)
		return Term{fmt.Sprintf("((as const %s) %s)", s, t.ghostZero(ty.Val).S), s}
	}
	return t.c.zero(ty.Go)
}

// closureAxioms: a closure with a contract of the form "ensures result == E" defines the
// application function for its value: forall params :: apply(clo, params) == E, with the
// captured variables read in the state at closure creation (listed as an assumption: the
// captured variables are not reassigned before the closure is applied).
func (t *Tr) closureAxioms(mc *ssa.MakeClosure, clo Term) {
	fn := mc.Fn.(*ssa.Function)
	ct := t.sp.Contracts[funcKey(fn)]
	if ct == nil || fn.Signature.Results().Len() != 1 {
		return
	}
	c := t.c
	env := &Env{t: t, c: c, vars: map[string]*SVal{}, locs: map[string]*Loc{}, st: t.curSt, old: t.curSt, pkg: t.pkgByName(ct.Pkg)}
	var binds []string
	var ats []Term
	var ss []Sort
	ats = append(ats, clo)
	ss = append(ss, SInt)
	for _, p := range fn.Params {
		s := c.sortOf(p.Type())
		nm := sym("q!" + p.Name())
		binds = append(binds, fmt.Sprintf("(%s %s)", nm, s))
		env.vars[p.Name()] = &SVal{Term{nm, s}, goT(p.Type())}
		ats = append(ats, Term{nm, s})
		ss = append(ss, s)
	}
	for i, fv := range fn.FreeVars {
		b := t.val(mc.Bindings[i])
		if b.Loc != nil {
			env.vars[fv.Name()] = &SVal{c.locRead(t.curSt, b.Loc), goT(b.Loc.valueType())}
		} else {
			env.vars[fv.Name()] = &SVal{b.T, goT(fv.Type())}
		}
	}
	rs := c.sortOf(fn.Signature.Results().At(0).Type())
	ap := app(c.declFun(applyName(ss[1:], rs), ss, rs), rs, ats...)
	env.vars["result"] = &SVal{ap, goT(fn.Signature.Results().At(0).Type())}
	for _, e := range ct.Ensures {
		g, err := env.boolExpr(e.E)
		if err != nil {
			t.unsup("closure contract %s: %v", ct.Key, err)
			continue
		}
		if len(binds) == 0 {
			c.assert(g)
		} else {
			c.assert(Term{fmt.Sprintf("(forall (%s) (! %s :pattern (%s)))", strings.Join(binds, " "), g.S, ap.S), SBool})
		}
	}
	t.trusted["closure "+ct.Key+": captured variables are not reassigned between creation and application"] = true
}
