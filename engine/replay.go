package main

import (
	"bytes"
	"context"
	"encoding/json"
	"fmt"
	"go/types"
	"os"
	"os/exec"
	"path/filepath"
	"strconv"
	"strings"
	"time"
)

// ---------------------------------------------------------------------------
// model extraction

// paramInputs lists, for a function's parameters, the terms whose model values describe a concrete input.
func (t *Tr) paramInputs() []inputTerm {
	var out []inputTerm
	if t.fn == nil {
		return nil
	}
	for _, p := range t.fn.Params {
		v := t.vals[p]
		if v == nil || v.T.S == "" {
			continue
		}
		switch u := types.Unalias(p.Type()).Underlying().(type) {
		case *types.Basic:
			out = append(out, inputTerm{p.Name(), v.T})
		case *types.Slice:
			if b, ok := u.Elem().Underlying().(*types.Basic); ok && b.Kind() == types.Uint8 {
				comp := compElem(u.Elem())
				if _, ok := t.c.compSort[comp]; !ok {
					t.regElem(u.Elem())
				}
				mem := t.c.initial(comp)
				out = append(out, inputTerm{p.Name() + ".len", sLen(v.T)})
				out = append(out, inputTerm{p.Name() + ".isnil", eq(sArr(v.T), tInt(0))})
				for k := 0; k < 48; k++ {
					out = append(out, inputTerm{fmt.Sprintf("%s[%d]", p.Name(), k), sel(sel(mem, sArr(v.T)), add(sOff(v.T), tInt(int64(k))))})
				}
			}
		}
	}
	return out
}

// parseValues reads the answer to (get-value (...)): a list of (term value) pairs, in order.
func parseValues(out string) []string {
	i := strings.Index(out, "((")
	if i < 0 {
		return nil
	}
	s := out[i:]
	// split top-level pairs
	var vals []string
	depth := 0
	start := -1
	for k := 0; k < len(s); k++ {
		switch s[k] {
		case '"':
			k++
			for k < len(s) && s[k] != '"' {
				k++
			}
		case '|':
			k++
			for k < len(s) && s[k] != '|' {
				k++
			}
		case '(':
			depth++
			if depth == 2 {
				start = k
			}
		case ')':
			if depth == 2 && start >= 0 {
				vals = append(vals, s[start:k+1])
				start = -1
			}
			depth--
			if depth == 0 {
				return vals
			}
		}
	}
	return vals
}

// pairValue extracts the value part of "(term value)": the last top-level element.
func pairValue(p string) string {
	p = strings.TrimSpace(p)
	p = p[1 : len(p)-1]
	depth := 0
	last := 0
	inBar, inStr := false, false
	for k := 0; k < len(p); k++ {
		c := p[k]
		switch {
		case inBar:
			if c == '|' {
				inBar = false
			}
		case inStr:
			if c == '"' {
				inStr = false
			}
		case c == '|':
			inBar = true
		case c == '"':
			inStr = true
		case c == '(':
			depth++
		case c == ')':
			depth--
		case (c == ' ' || c == '\n') && depth == 0:
			last = k + 1
		}
	}
	return strings.TrimSpace(p[last:])
}

func smtInt(v string) (int64, bool) {
	v = strings.TrimSpace(v)
	neg := false
	if strings.HasPrefix(v, "(-") {
		neg = true
		v = strings.TrimSpace(strings.TrimSuffix(strings.TrimPrefix(v, "(-"), ")"))
	}
	n, err := strconv.ParseInt(v, 10, 64)
	if err != nil {
		// out of int64 range or not a numeral
		return 0, false
	}
	if neg {
		n = -n
	}
	return n, true
}

// ---------------------------------------------------------------------------
// candidate models for undecided obligations: drop quantified assumptions

func (o *Obligation) queryWeak() string {
	full := o.query()
	var sb strings.Builder
	for _, l := range strings.Split(full, "\n") {
		if strings.HasPrefix(l, "(assert") && (strings.Contains(l, "(forall ") || strings.Contains(l, "(exists ")) {
			// keep the negated goal itself
			if !strings.HasPrefix(l, "(assert (not ") || !strings.HasSuffix(strings.TrimSpace(l), o.Goal.S+"))") {
				continue
			}
		}
		sb.WriteString(l)
		sb.WriteByte('\n')
	}
	return sb.String()
}

// ---------------------------------------------------------------------------
// replay on the real code

type concreteInput struct {
	Name  string      `json:"name"`
	Type  string      `json:"type"`
	Value interface{} `json:"value"`
}

func goLiteral(typ types.Type, name string, vals map[string]string) (string, interface{}, bool) {
	switch u := types.Unalias(typ).Underlying().(type) {
	case *types.Basic:
		v, ok := vals[name]
		if !ok {
			return "", nil, false
		}
		tn := types.TypeString(typ, func(p *types.Package) string { return "" })
		switch {
		case u.Info()&types.IsBoolean != 0:
			return fmt.Sprintf("%s(%s)", tn, v), v, true
		case u.Info()&types.IsString != 0:
			return "", nil, false
		case u.Info()&types.IsInteger != 0:
			n, ok := smtInt(v)
			if !ok {
				return "", nil, false
			}
			return fmt.Sprintf("%s(%d)", tn, n), n, true
		}
	case *types.Slice:
		if b, ok := u.Elem().Underlying().(*types.Basic); ok && b.Kind() == types.Uint8 {
			ln, ok := smtInt(vals[name+".len"])
			if !ok || ln < 0 || ln > 1<<20 {
				return "", nil, false
			}
			if vals[name+".isnil"] == "true" && ln == 0 {
				return "[]byte(nil)", []int{}, true
			}
			var bs []string
			var raw []int64
			for k := int64(0); k < ln; k++ {
				b := int64(0)
				if v, ok := vals[fmt.Sprintf("%s[%d]", name, k)]; ok {
					if n, ok := smtInt(v); ok && n >= 0 && n <= 255 {
						b = n
					}
				}
				bs = append(bs, fmt.Sprintf("0x%02X", b))
				raw = append(raw, b)
			}
			return "[]byte{" + strings.Join(bs, ", ") + "}", raw, true
		}
	}
	return "", nil, false
}

// tryReplay turns a refuting (or candidate) model into a run of the real code.
// It returns true when the violation was reproduced there.
func tryReplay(w *World, verifDir, prop string, o *Obligation, path string) bool {
	rec := map[string]interface{}{}
	if data, err := os.ReadFile(path); err == nil {
		json.Unmarshal(data, &rec)
	}
	save := func() {
		data, _ := json.MarshalIndent(rec, "", " ")
		os.WriteFile(path, data, 0o644)
	}
	fn := w.Funcs[o.Fn]
	safetyKind := map[string]bool{"index": true, "slice": true, "nil": true, "div": true, "panic": true, "assert-type": true, "makeslice": true}[o.Kind]
	if fn == nil && len(o.Inputs) > 0 && o.Status == "refuted" {
		// a lemma: the witness of the refutation (values of its universally quantified variables)
		if pairs := parseValues(o.Model); len(pairs) == len(o.Inputs) {
			var wit []concreteInput
			for i, in := range o.Inputs {
				v := pairValue(pairs[i])
				var raw interface{} = v
				if n, ok := smtInt(v); ok {
					raw = n
				} else if len(v) >= 2 && v[0] == '"' {
					raw = smtUnquote(v)
				}
				wit = append(wit, concreteInput{in.Name, string(in.T.Sort), raw})
			}
			rec["input"] = wit
		}
	}
	if fn == nil || len(o.Inputs) == 0 {
		rec["replay"] = "no generic adapter for this function's inputs"
		save()
		return scenarioReplay(w, verifDir, prop, o, rec, save)
	}
	// model
	out := o.Model
	if o.Status != "refuted" {
		// undecided: look for a candidate model with quantified assumptions dropped
		file := filepath.Join(os.TempDir(), fmt.Sprintf("lbvc-weak-%d.smt2", os.Getpid()))
		os.WriteFile(file, []byte(o.queryWeak()), 0o644)
		r := solve(file, 10, 0)
		os.Remove(file)
		if r.verdict != "sat" {
			rec["replay"] = "no model: solver answered " + r.verdict + " (also with quantified assumptions dropped)"
			save()
			return scenarioReplay(w, verifDir, prop, o, rec, save)
		}
		out = r.output
		rec["candidate_model_note"] = "model obtained with quantified assumptions dropped; it counts only because the replay below decides on the real code"
	}
	pairs := parseValues(out)
	if len(pairs) != len(o.Inputs) {
		rec["replay"] = fmt.Sprintf("could not read the model (%d values for %d inputs)", len(pairs), len(o.Inputs))
		save()
		return scenarioReplay(w, verifDir, prop, o, rec, save)
	}
	vals := map[string]string{}
	for i, in := range o.Inputs {
		vals[in.Name] = pairValue(pairs[i])
	}
	// build the call
	var args []string
	var concrete []concreteInput
	allOK := true
	for _, p := range fn.Params {
		lit, raw, ok := goLiteral(p.Type(), p.Name(), vals)
		if !ok {
			allOK = false
			continue
		}
		args = append(args, lit)
		concrete = append(concrete, concreteInput{p.Name(), p.Type().String(), raw})
	}
	rec["input"] = concrete
	if fn.Signature.Recv() != nil || fn.Parent() != nil || !allOK {
		rec["replay"] = "generic adapter handles package-level functions with scalar / []byte parameters only"
		save()
		return scenarioReplay(w, verifDir, prop, o, rec, save)
	}
	var lhs string
	if n := fn.Signature.Results().Len(); n > 0 {
		lhs = strings.TrimSuffix(strings.Repeat("_, ", n), ", ") + " = "
	}
	pkgDir := filepath.Join(w.Repo, strings.TrimPrefix(fn.Pkg.Pkg.Path(), modPath))
	src := fmt.Sprintf(`package %s

import "testing"

// generated by lbvc from the solver model of obligation %s
func TestLbvcReplay(t *testing.T) {
	defer func() {
		if r := recover(); r != nil {
			t.Fatalf("LBVC-REPRODUCED: panic: %%v", r)
		}
	}()
	%s%s(%s)
	t.Log("LBVC-NO-PANIC")
}
`, fn.Pkg.Pkg.Name(), o.Name, lhs, fn.Name(), strings.Join(args, ", "))
	rec["replay_test"] = src
	if !safetyKind {
		rec["replay"] = "input materialised; this obligation is a functional postcondition, which the generic adapter cannot evaluate on the real run"
		save()
		return scenarioReplay(w, verifDir, prop, o, rec, save)
	}
	outTxt, failed := runOverlayTest(w.Repo, pkgDir, "zz_lbvc_replay_test.go", src, "TestLbvcReplay", 180)
	rec["replay_output"] = tail(outTxt, 4000)
	if failed && strings.Contains(outTxt, "LBVC-REPRODUCED") {
		rec["replay"] = "reproduced on the real code: the call panics"
		save()
		return true
	}
	rec["replay"] = "the model's input does not make the real code panic"
	save()
	return false
}

func tail(s string, n int) string {
	if len(s) > n {
		return "..." + s[len(s)-n:]
	}
	return s
}

// runOverlayTest injects a test file into a package of the repository (without writing into it)
// and runs one test. Returns the output and whether the test run failed.
func runOverlayTest(repo, pkgDir, fileName, src, testName string, timeoutSec int, env ...string) (string, bool) {
	tmp, err := os.MkdirTemp("", "lbvc-replay-")
	if err != nil {
		return err.Error(), false
	}
	defer os.RemoveAll(tmp)
	srcPath := filepath.Join(tmp, fileName)
	os.WriteFile(srcPath, []byte(src), 0o644)
	ov := map[string]map[string]string{"Replace": {filepath.Join(pkgDir, fileName): srcPath}}
	ovData, _ := json.Marshal(ov)
	ovPath := filepath.Join(tmp, "overlay.json")
	os.WriteFile(ovPath, ovData, 0o644)
	ctx, cancel := context.WithTimeout(context.Background(), time.Duration(timeoutSec+60)*time.Second)
	defer cancel()
	rel, _ := filepath.Rel(repo, pkgDir)
	argv := []string{"go", "test", "-tags", "verif", "-overlay", ovPath, "-vet=off", "-count=1",
		"-timeout", fmt.Sprintf("%ds", timeoutSec), "-run", "^" + testName + "$", "-v", "./" + rel}
	if netnsOK() {
		// private network namespace: the server tests bind fixed ports
		argv = append([]string{"unshare", "-n", "sh", "-c", "ip link set lo up; exec \"$@\"", "--"}, argv...)
	}
	cmd := exec.CommandContext(ctx, argv[0], argv[1:]...)
	cmd.Dir = repo
	cmd.Env = append(os.Environ(), env...)
	var out bytes.Buffer
	cmd.Stdout = &out
	cmd.Stderr = &out
	err = cmd.Run()
	return out.String(), err != nil
}

// scenarioReplay: hand-written scenarios per obligation family (replay/scenarios.json maps an
// obligation-name pattern to a Go test source under /verif/replay that drives the real API into
// the refuting state and checks the property-level symptom).
func scenarioReplay(w *World, verifDir, prop string, o *Obligation, rec map[string]interface{}, save func()) bool {
	data, err := os.ReadFile(filepath.Join(verifDir, "replay", "scenarios.json"))
	if err != nil {
		return false
	}
	var scs []struct {
		Obligation string `json:"obligation"`
		Property   string `json:"property"`
		Package    string `json:"package"` // directory below the repo root
		File       string `json:"file"`    // test source under /verif/replay
		Test       string `json:"test"`
		Timeout    int    `json:"timeout_s"`
		// AnyFailure: the source is a property-level demonstration that does not print the LBVC-REPRODUCED marker (a
		// test written by an independent seed author from the property text, kept under /verif/seeded): a failing
		// assertion of that test on the real code is the reproduction.
		AnyFailure bool `json:"any_failure"`
	}
	if json.Unmarshal(data, &scs) != nil {
		return false
	}
	for _, sc := range scs {
		if (sc.Obligation != o.Name && sc.Obligation != "fn:"+o.Fn) || (sc.Property != "" && sc.Property != prop) {
			continue
		}
		src, err := os.ReadFile(filepath.Join(verifDir, "replay", sc.File))
		if err != nil {
			continue
		}
		to := sc.Timeout
		if to == 0 {
			to = 240
		}
		inJSON, _ := json.Marshal(rec["input"])
		out, failed := runOverlayTest(w.Repo, filepath.Join(w.Repo, sc.Package), "zz_lbvc_scenario_test.go", string(src), sc.Test, to,
			"LBVC_INPUT="+string(inJSON), "LBVC_OBLIGATION="+o.Name)
		rec["scenario"] = sc.File + ":" + sc.Test
		rec["replay_output"] = tail(out, 6000)
		if failed && (strings.Contains(out, "LBVC-REPRODUCED") || (sc.AnyFailure && strings.Contains(out, "--- FAIL: "))) {
			rec["replay"] = "reproduced on the real code by scenario " + sc.Test
			if sc.AnyFailure {
				rec["replay"] = "reproduced on the real code: the property-level demonstration " + sc.File + " (" + sc.Test + ") fails"
			}
			save()
			return true
		}
		rec["replay"] = "scenario " + sc.Test + " did not reproduce the symptom"
		save()
	}
	return false
}

var netnsChecked, netnsAvail bool

func netnsOK() bool {
	if !netnsChecked {
		netnsChecked = true
		netnsAvail = exec.Command("unshare", "-n", "sh", "-c", "ip link set lo up").Run() == nil
	}
	return netnsAvail
}

// smtUnquote turns an SMT-LIB string literal into the Go string it denotes ("" is an escaped quote, \u{..} a code point).
func smtUnquote(v string) string {
	v = v[1 : len(v)-1]
	v = strings.ReplaceAll(v, `""`, `"`)
	var sb strings.Builder
	for i := 0; i < len(v); i++ {
		if strings.HasPrefix(v[i:], `\u{`) {
			if j := strings.Index(v[i:], "}"); j > 0 {
				var cp int
				if _, err := fmt.Sscanf(v[i+3:i+j], "%x", &cp); err == nil {
					sb.WriteRune(rune(cp))
					i += j
					continue
				}
			}
		}
		sb.WriteByte(v[i])
	}
	return sb.String()
}
