package main

import (
	"go/token"
	"go/types"
	"sort"
	"strings"

	"golang.org/x/tools/go/ssa"
)

// ModSets computes, per module function, the set of heap components it may store to
// (transitively). Component = whole field / element memory / map / global / cell.
type ModSets struct {
	w         *World
	sp        *Specs
	direct    map[*ssa.Function]map[string]bool
	callees   map[*ssa.Function][]*ssa.Function
	total     map[*ssa.Function]map[string]bool
	compSorts map[string]func(c *Ctx) Sort
	namedTypes []types.Type
	addrTaken map[string][]*ssa.Function // by signature string
	paramCalls map[*ssa.Function][]int  // indices of func-typed parameters a function calls directly (and only calls)
	done      bool
	frozen    map[string]bool
	cellOwner map[string]*ssa.Function
	globalUse map[*ssa.Function]map[string]bool // module globals (transitively) referenced
}

func newModSets(w *World, sp *Specs) *ModSets {
	m := &ModSets{w: w, sp: sp, direct: map[*ssa.Function]map[string]bool{}, callees: map[*ssa.Function][]*ssa.Function{},
		total: map[*ssa.Function]map[string]bool{}, compSorts: map[string]func(c *Ctx) Sort{}, addrTaken: map[string][]*ssa.Function{}, paramCalls: map[*ssa.Function][]int{}, cellOwner: map[string]*ssa.Function{}}
	m.compSorts[compAlloc] = func(c *Ctx) Sort { return SInt }
	for _, sp := range w.SPkgs {
		for _, mem := range sp.Members {
			if tp, ok := mem.(*ssa.Type); ok {
				m.namedTypes = append(m.namedTypes, tp.Type())
			}
		}
	}
	sort.Slice(m.namedTypes, func(i, j int) bool { return m.namedTypes[i].String() < m.namedTypes[j].String() })
	m.compute()
	return m
}

func (m *ModSets) regField(styp types.Type, fi int) string {
	st := styp.Underlying().(*types.Struct)
	f := st.Field(fi)
	comp := compField(styp, f.Name())
	ft := f.Type()
	m.compSorts[comp] = func(c *Ctx) Sort { return arrSort(SInt, c.sortOf(ft)) }
	return comp
}
func (m *ModSets) regElem(elem types.Type) string {
	comp := compElem(elem)
	m.compSorts[comp] = func(c *Ctx) Sort { return arrSort(SInt, arrSort(SInt, c.sortOf(elem))) }
	return comp
}
func (m *ModSets) regOpaque(t types.Type) string {
	comp := compOpaque(t)
	m.compSorts[comp] = func(c *Ctx) Sort { return arrSort(SInt, c.sortOf(t)) }
	return comp
}
func (m *ModSets) regMap(mt types.Type) []string {
	mm := mt.Underlying().(*types.Map)
	k, v := mm.Key(), mm.Elem()
	m.compSorts[compMapDom(mt)] = func(c *Ctx) Sort { return arrSort(SInt, arrSort(c.sortOf(k), SBool)) }
	m.compSorts[compMapVal(mt)] = func(c *Ctx) Sort { return arrSort(SInt, arrSort(c.sortOf(k), c.sortOf(v))) }
	m.compSorts[compMapLen(mt)] = func(c *Ctx) Sort { return arrSort(SInt, SInt) }
	return []string{compMapDom(mt), compMapVal(mt), compMapLen(mt)}
}

// isLocValue mirrors the translator: does this pointer-typed SSA value denote a location
// (as opposed to a reference to a heap struct)?
func isLocValue(v ssa.Value) bool {
	switch x := v.(type) {
	case *ssa.Convert:
		return isLocValue(x.X)
	case *ssa.FieldAddr, *ssa.IndexAddr, *ssa.Global, *ssa.FreeVar:
		return true
	case *ssa.Alloc:
		_, isStruct := deref(x.Type()).Underlying().(*types.Struct)
		return !isStruct
	}
	return false
}

// addrComps: the components a store through address v may hit.
func (m *ModSets) addrComps(fn *ssa.Function, v ssa.Value) []string {
	switch x := v.(type) {
	case *ssa.Convert:
		if _, ok := x.X.Type().Underlying().(*types.Pointer); ok && isLocValue(x.X) {
			return m.addrComps(fn, x.X)
		}
		if b, ok := x.X.Type().Underlying().(*types.Basic); ok && b.Kind() == types.UnsafePointer {
			return m.addrComps(fn, x.X)
		}
	case *ssa.FieldAddr:
		if isLocValue(x.X) {
			return m.addrComps(fn, x.X)
		}
		return []string{m.regField(deref(x.X.Type()), x.Field)}
	case *ssa.IndexAddr:
		switch u := x.X.Type().Underlying().(type) {
		case *types.Slice:
			return []string{m.regElem(u.Elem())}
		case *types.Pointer:
			at := u.Elem().Underlying().(*types.Array)
			if _, ok := x.X.(*ssa.Alloc); ok {
				return []string{m.regElem(at.Elem())}
			}
			return []string{m.regOpaque(at.Elem())}
		}
	case *ssa.Alloc:
		typ := deref(x.Type())
		switch u := typ.Underlying().(type) {
		case *types.Struct:
			var out []string
			for i := 0; i < u.NumFields(); i++ {
				out = append(out, m.regField(typ, i))
			}
			return out
		case *types.Array:
			return []string{m.regElem(u.Elem())}
		}
		name := cellName(x)
		m.compSorts[name] = func(c *Ctx) Sort { return c.sortOf(typ) }
		m.cellOwner[name] = x.Parent()
		return []string{name}
	case *ssa.Global:
		pk := "?"
		if x.Pkg != nil {
			pk = x.Pkg.Pkg.Name()
		}
		typ := deref(x.Type())
		name := compGlobal(pk, x.Name())
		m.compSorts[name] = func(c *Ctx) Sort { return c.sortOf(typ) }
		return []string{name}
	case *ssa.FreeVar:
		if comp, typ, owner := freeVarCellOwner(fn, x); comp != "" {
			m.compSorts[comp] = func(c *Ctx) Sort { return c.sortOf(typ) }
			m.cellOwner[comp] = owner
			return []string{comp}
		}
	}
	typ := deref(v.Type())
	if u, ok := typ.Underlying().(*types.Struct); ok {
		var out []string
		for i := 0; i < u.NumFields(); i++ {
			out = append(out, m.regField(typ, i))
		}
		return out
	}
	return []string{m.regOpaque(typ)}
}

func inModule(fn *ssa.Function) bool {
	for f := fn; f != nil; f = f.Parent() {
		if f.Pkg != nil {
			return isModPath(f.Pkg.Pkg.Path())
		}
	}
	// methods of instantiated generics / wrappers: look at the receiver's package
	if fn.Signature != nil && fn.Signature.Recv() != nil {
		if n, ok := deref(fn.Signature.Recv().Type()).(*types.Named); ok && n.Obj().Pkg() != nil {
			return isModPath(n.Obj().Pkg().Path())
		}
	}
	return false
}

// staticCallees resolves the possible module callees of a call; lib is true if a
// non-module callee is possible.
func (m *ModSets) staticCallees(call *ssa.CallCommon) (fns []*ssa.Function, lib bool) {
	if call.IsInvoke() {
		iface, _ := call.Value.Type().Underlying().(*types.Interface)
		found := false
		for _, nt := range m.namedTypes {
			for _, T := range []types.Type{nt, types.NewPointer(nt)} {
				if _, isI := nt.Underlying().(*types.Interface); isI {
					continue
				}
				if iface != nil && types.Implements(T, iface) {
					sel := m.w.Prog.MethodSets.MethodSet(T).Lookup(call.Method.Pkg(), call.Method.Name())
					if sel != nil {
						if f := m.w.Prog.MethodValue(sel); f != nil {
							fns = append(fns, f)
							found = true
						}
					}
					break
				}
			}
		}
		// an interface declared outside the module may have foreign implementations
		ifaceInModule := false
		if n, ok := types.Unalias(call.Value.Type()).(*types.Named); ok && n.Obj().Pkg() != nil {
			ifaceInModule = isModPath(n.Obj().Pkg().Path())
		}
		return fns, !ifaceInModule || !found
	}
	switch v := call.Value.(type) {
	case *ssa.Function:
		if inModule(v) && len(v.Blocks) > 0 {
			return []*ssa.Function{v}, false
		}
		return nil, true
	case *ssa.MakeClosure:
		return []*ssa.Function{unwrapMethodValue(v.Fn.(*ssa.Function))}, false
	case *ssa.Builtin:
		return nil, false
	}
	// dynamic call through a function value
	if p, ok := call.Value.(*ssa.Parameter); ok && m.onlyCalled(p) {
		// the effects are those of the function the caller passes: accounted for at the call sites (paramCallees)
		return nil, false
	}
	// where does the function value come from? (results of module functions, phis, stores into the struct field it is
	// read from; a function value handed out by a library function - context.WithTimeout's cancel - is library code)
	if fns, lib, ok := m.resolveFuncValue(call.Value, 0, map[ssa.Value]bool{}); ok {
		return fns, lib
	}
	sig := call.Value.Type().Underlying().(*types.Signature)
	return m.addrTaken[sigKey(sig)], true
}

// resolveFuncValue follows a function value back to the functions it can denote. ok is false when some source cannot
// be followed (parameters, free variables, map / slice elements, interfaces): the caller then falls back to every
// address-taken function of the signature.
func (m *ModSets) resolveFuncValue(v ssa.Value, depth int, seen map[ssa.Value]bool) (fns []*ssa.Function, lib bool, ok bool) {
	if depth > 4 {
		return nil, false, false
	}
	if seen[v] {
		return nil, false, true
	}
	seen[v] = true
	switch x := v.(type) {
	case *ssa.Function:
		if inModule(x) && len(x.Blocks) > 0 {
			return []*ssa.Function{unwrapMethodValue(x)}, false, true
		}
		return nil, true, true
	case *ssa.MakeClosure:
		return []*ssa.Function{unwrapMethodValue(x.Fn.(*ssa.Function))}, false, true
	case *ssa.Const:
		return nil, false, true // nil function value: calling it panics, it has no effects
	case *ssa.ChangeType:
		return m.resolveFuncValue(x.X, depth, seen)
	case *ssa.Phi:
		for _, e := range x.Edges {
			f, l, k := m.resolveFuncValue(e, depth, seen)
			if !k {
				return nil, false, false
			}
			fns = append(fns, f...)
			lib = lib || l
		}
		return fns, lib, true
	case *ssa.Extract:
		if c, isCall := x.Tuple.(*ssa.Call); isCall {
			return m.resolveCallResult(c, x.Index, depth, seen)
		}
	case *ssa.Call:
		return m.resolveCallResult(x, 0, depth, seen)
	case *ssa.UnOp:
		if fa, isField := x.X.(*ssa.FieldAddr); isField && x.Op == token.MUL {
			return m.resolveFieldFuncs(fa, depth, seen)
		}
	}
	return nil, false, false
}

func (m *ModSets) resolveCallResult(c *ssa.Call, idx, depth int, seen map[ssa.Value]bool) (fns []*ssa.Function, lib bool, ok bool) {
	if c.Call.IsInvoke() {
		return nil, false, false
	}
	callee, isFn := c.Call.Value.(*ssa.Function)
	if !isFn {
		return nil, false, false
	}
	if !inModule(callee) || len(callee.Blocks) == 0 {
		return nil, true, true
	}
	for _, b := range callee.Blocks {
		for _, in := range b.Instrs {
			r, isRet := in.(*ssa.Return)
			if !isRet || idx >= len(r.Results) {
				continue
			}
			f, l, k := m.resolveFuncValue(r.Results[idx], depth+1, seen)
			if !k {
				return nil, false, false
			}
			fns = append(fns, f...)
			lib = lib || l
		}
	}
	return fns, lib, true
}

// resolveFieldFuncs: every value stored into that field of that struct type anywhere in the module (field-based, flow-
// insensitive). Only for fields of module struct types whose address is never taken other than for loads and stores.
func (m *ModSets) resolveFieldFuncs(fa *ssa.FieldAddr, depth int, seen map[ssa.Value]bool) (fns []*ssa.Function, lib bool, ok bool) {
	st := deref(fa.X.Type())
	named, isNamed := types.Unalias(st).(*types.Named)
	if !isNamed || named.Obj().Pkg() == nil || !isModPath(named.Obj().Pkg().Path()) {
		return nil, false, false
	}
	stores := 0
	for _, fn := range m.w.AllFn {
		for _, b := range fn.Blocks {
			for _, in := range b.Instrs {
				fa2, isFA := in.(*ssa.FieldAddr)
				if !isFA || fa2.Field != fa.Field || !types.Identical(deref(fa2.X.Type()), st) || fa2.Referrers() == nil {
					continue
				}
				for _, r := range *fa2.Referrers() {
					switch u := r.(type) {
					case *ssa.Store:
						if u.Addr != fa2 {
							return nil, false, false // the field's address is stored somewhere
						}
						stores++
						f, l, k := m.resolveFuncValue(u.Val, depth+1, seen)
						if !k {
							return nil, false, false
						}
						fns = append(fns, f...)
						lib = lib || l
					case *ssa.UnOp, *ssa.DebugRef:
					default:
						return nil, false, false
					}
				}
			}
		}
	}
	if stores == 0 {
		return nil, false, false
	}
	return fns, lib, true
}

// fromLibraryCall: the value is a result of a call to a function outside the module.
func fromLibraryCall(v ssa.Value) bool {
	if ex, ok := v.(*ssa.Extract); ok {
		v = ex.Tuple
	}
	c, ok := v.(*ssa.Call)
	if !ok || c.Call.IsInvoke() {
		return false
	}
	f, ok := c.Call.Value.(*ssa.Function)
	return ok && !inModule(f)
}

// onlyCalled: a func-typed parameter whose only uses are direct calls (and debug refs).
func (m *ModSets) onlyCalled(p *ssa.Parameter) bool {
	if _, ok := p.Type().Underlying().(*types.Signature); !ok || p.Parent() == nil || p.Referrers() == nil {
		return false
	}
	for _, r := range *p.Referrers() {
		switch x := r.(type) {
		case *ssa.DebugRef:
		case *ssa.Call:
			if x.Call.Value != p {
				return false
			}
			for _, a := range x.Call.Args {
				if a == p {
					return false
				}
			}
		default:
			return false
		}
	}
	return true
}

// paramCallees: functions that run inside a call because the callee calls a func-typed parameter directly:
// the closure / function passed at this call site, or every address-taken function of that signature.
func (m *ModSets) paramCallees(call *ssa.CallCommon) []*ssa.Function {
	var out []*ssa.Function
	callees, _ := m.staticCallees(call)
	for _, c := range callees {
		for i, p := range c.Params {
			if !m.onlyCalled(p) {
				continue
			}
			called := false
			for _, r := range *p.Referrers() {
				if _, ok := r.(*ssa.Call); ok {
					called = true
				}
			}
			if !called || call.IsInvoke() || i >= len(call.Args) {
				continue
			}
			switch a := call.Args[i].(type) {
			case *ssa.MakeClosure:
				out = append(out, unwrapMethodValue(a.Fn.(*ssa.Function)))
			case *ssa.Function:
				if inModule(a) && len(a.Blocks) > 0 {
					out = append(out, a)
				}
			default:
				out = append(out, m.addrTaken[sigKey(p.Type().Underlying().(*types.Signature))]...)
			}
		}
	}
	return out
}

func sigKey(s *types.Signature) string {
	return types.TypeString(types.NewSignatureType(nil, nil, nil, s.Params(), s.Results(), s.Variadic()), nil)
}

var nonCallbackPkgs = map[string]bool{"fmt": true, "errors": true, "strings": true, "bytes": true, "time": true, "sync": true,
	"sync/atomic": true, "context": true, "strconv": true, "math": true, "encoding/binary": true, "hash/crc32": true, "os": true,
	"path/filepath": true, "io": true, "io/ioutil": true, "unicode/utf8": true, "math/rand": true, "crypto/rand": true,
	"google.golang.org/grpc/status": true, "google.golang.org/grpc/codes": true, "github.com/pkg/errors": true,
	"crypto/aes": true, "crypto/cipher": true, "runtime": true, "reflect": true, "unsafe": true, "log": true,
	"github.com/golang/protobuf/proto": true, "google.golang.org/protobuf/proto": true}

func calleePkgPath(call *ssa.CallCommon) string {
	if call.IsInvoke() {
		if call.Method.Pkg() != nil {
			return call.Method.Pkg().Path()
		}
		return ""
	}
	if f, ok := call.Value.(*ssa.Function); ok {
		if f.Pkg != nil {
			return f.Pkg.Pkg.Path()
		}
		if f.Signature.Recv() != nil {
			if n, ok := deref(f.Signature.Recv().Type()).(*types.Named); ok && n.Obj().Pkg() != nil {
				return n.Obj().Pkg().Path()
			}
		}
	}
	return ""
}

// callArgMods: effects of a call that come from its arguments (escaping locations,
// library writes into slices, builtins).
func (m *ModSets) callArgMods(fn *ssa.Function, call *ssa.CallCommon, lib bool) []string {
	var out []string
	if b, ok := call.Value.(*ssa.Builtin); ok {
		switch b.Name() {
		case "append":
			if s, ok := call.Args[0].Type().Underlying().(*types.Slice); ok {
				out = append(out, m.regElem(s.Elem()))
			}
		case "copy":
			if s, ok := call.Args[0].Type().Underlying().(*types.Slice); ok {
				out = append(out, m.regElem(s.Elem()))
			}
		case "delete", "clear":
			if _, ok := call.Args[0].Type().Underlying().(*types.Map); ok {
				out = append(out, m.regMap(call.Args[0].Type())...)
			}
		}
		return out
	}
	args := call.Args
	if f, ok := call.Value.(*ssa.Function); ok && (f.String() == "sort.SliceStable" || f.String() == "sort.Slice" || f.String() == "sort.Sort" || f.String() == "sort.Stable") {
		if mi, ok := args[0].(*ssa.MakeInterface); ok {
			if sl, ok := mi.X.Type().Underlying().(*types.Slice); ok {
				out = append(out, m.regElem(sl.Elem()))
			}
		}
	}
	for _, a := range args {
		if _, isPtr := a.Type().Underlying().(*types.Pointer); isPtr && isLocValue(a) {
			// an escaping location may be written by the callee
			if !(isSyncRecv(call)) {
				out = append(out, m.addrComps(fn, a)...)
			}
		}
		if lib && !pureLibCall(call) {
			// a library function may fill the struct a pointer argument refers to (directly or boxed in an interface)
			pv := a
			if mi, ok := a.(*ssa.MakeInterface); ok {
				pv = mi.X
			}
			if pt, ok := pv.Type().Underlying().(*types.Pointer); ok && !isLocValue(pv) {
				if su, ok := pt.Elem().Underlying().(*types.Struct); ok && !readOnlyPtrArg(call) && libMayFill(call, pt.Elem()) {
					for i := 0; i < su.NumFields(); i++ {
						out = append(out, m.regField(pt.Elem(), i))
					}
				}
			}
		}
		if lib {
			if s, ok := a.Type().Underlying().(*types.Slice); ok {
				if _, isIface := s.Elem().Underlying().(*types.Interface); isIface {
					continue // ...interface{} arguments (formatting, logging) are assumed to be read only
				}
				if !pureLibCall(call) {
					out = append(out, m.regElem(s.Elem()))
				}
			}
		}
	}
	return out
}

func isSyncRecv(call *ssa.CallCommon) bool {
	p := calleePkgPath(call)
	return p == "sync" || p == "sync/atomic" && false
}

// pureLibCall: library functions known not to write through their slice arguments.
func pureLibCall(call *ssa.CallCommon) bool {
	f, ok := call.Value.(*ssa.Function)
	if !ok {
		if call.IsInvoke() {
			switch call.Method.Name() {
			case "Write", "Seal", "Open", "Sum", "WriteAt", "Enforce":
				return true
			}
		}
		return false
	}
	switch f.String() {
	case "bytes.Equal", "hash/crc32.Checksum", "(encoding/binary.bigEndian).Uint16", "(encoding/binary.bigEndian).Uint32",
		"(encoding/binary.bigEndian).Uint64", "fmt.Errorf", "fmt.Sprintf", "fmt.Sprint", "errors.New", "bytes.NewReader", "bytes.NewBuffer",
		"(*bytes.Buffer).Write", "(*os.File).Write", "(*os.File).WriteAt", "crypto/aes.NewCipher", "bytes.Compare", "string",
		"google.golang.org/grpc/status.Errorf", "google.golang.org/grpc/status.Error", "github.com/pkg/errors.Wrap", "github.com/pkg/errors.Wrapf",
		"bytes.HasPrefix", "hash/crc32.Update", "github.com/golang/protobuf/proto.Unmarshal", "github.com/golang/protobuf/proto.Marshal",
		"google.golang.org/protobuf/proto.Unmarshal", "google.golang.org/protobuf/proto.Marshal":
		return true
	}
	pp := calleePkgPath(call)
	if pp == "fmt" || pp == "errors" || pp == "strings" || pp == "github.com/pkg/errors" || pp == "google.golang.org/grpc/status" {
		return true
	}
	return false
}

func (m *ModSets) compute() {
	fns := m.w.AllFn
	// address-taken functions
	for _, fn := range fns {
		for _, b := range fn.Blocks {
			for _, in := range b.Instrs {
				if mc, ok := in.(*ssa.MakeClosure); ok {
					f := unwrapMethodValue(mc.Fn.(*ssa.Function))
					k := sigKey(f.Signature)
					m.addrTaken[k] = append(m.addrTaken[k], f)
					continue
				}
				var ops []*ssa.Value
				ops = in.Operands(ops)
				for i, op := range ops {
					if op == nil || *op == nil {
						continue
					}
					f, ok := (*op).(*ssa.Function)
					if !ok || !inModule(f) {
						continue
					}
					if c, ok := in.(ssa.CallInstruction); ok && i == 0 && c.Common().Value == f {
						continue
					}
					k := sigKey(f.Signature)
					dup := false
					for _, g := range m.addrTaken[k] {
						if g == f {
							dup = true
						}
					}
					if !dup {
						m.addrTaken[k] = append(m.addrTaken[k], f)
					}
				}
			}
		}
	}
	for _, fn := range fns {
		d := map[string]bool{}
		var cs []*ssa.Function
		for _, b := range fn.Blocks {
			for _, in := range b.Instrs {
				switch x := in.(type) {
				case *ssa.Store:
					if freshRoot(x.Addr) {
						// store into an object allocated by this very call: invisible in the caller's pre-state
						m.addrComps(fn, x.Addr) // (registers the component sorts)
						continue
					}
					for _, c := range m.addrComps(fn, x.Addr) {
						d[c] = true
					}
				case *ssa.MapUpdate:
					if _, ok := x.Map.(*ssa.MakeMap); ok {
						m.regMap(x.Map.Type())
						continue
					}
					for _, c := range m.regMap(x.Map.Type()) {
						d[c] = true
					}
				case ssa.CallInstruction:
					if _, isGo := in.(*ssa.Go); isGo {
						continue // effects of spawned goroutines are outside the sequential abstraction
					}
					call := x.Common()
					callees, lib := m.staticCallees(call)
					cs = append(cs, callees...)
					cs = append(cs, m.paramCallees(call)...)
					for _, c := range m.callArgMods(fn, call, lib) {
						d[c] = true
					}
					for _, c := range m.lockMods(fn, call) {
						d[c] = true
					}
					if lib && !nonCallbackPkgs[calleePkgPath(call)] {
						// library code may call back closures passed to it
						for _, a := range call.Args {
							if mc, ok := a.(*ssa.MakeClosure); ok {
								cs = append(cs, unwrapMethodValue(mc.Fn.(*ssa.Function)))
							}
							if f, ok := a.(*ssa.Function); ok && inModule(f) {
								cs = append(cs, f)
							}
						}
					}
				}
			}
		}
		m.direct[fn] = d
		m.callees[fn] = cs
	}
	// fixpoint
	for _, fn := range fns {
		t := map[string]bool{}
		for k := range m.direct[fn] {
			t[k] = true
		}
		m.total[fn] = t
	}
	changed := true
	for changed {
		changed = false
		for _, fn := range fns {
			t := m.total[fn]
			for _, c := range m.callees[fn] {
				for k := range m.total[c] {
					if !t[k] {
						if strings.HasPrefix(k, "L:") && !m.cellVisibleTo(k, fn) {
							continue
						}
						t[k] = true
						changed = true
					}
				}
			}
		}
	}
	m.computeGlobalUse()
	m.done = true
}

// cellVisibleTo: local cell components matter only to the owning function and its closures.
func (m *ModSets) cellVisibleTo(comp string, fn *ssa.Function) bool {
	owner := m.cellOwner[comp]
	for f := fn; f != nil; f = f.Parent() {
		if f == owner {
			return true
		}
	}
	// closures of fn writing cells of fn are handled when analysing fn itself
	return false
}

// lockMods: Lock() on a mutex with a declared lock invariant havocs the guarded fields.
func (m *ModSets) lockMods(fn *ssa.Function, call *ssa.CallCommon) []string {
	li, _ := m.lockInvFor(call)
	if li == nil {
		return nil
	}
	return m.guardedComps(li, call)
}

func (m *ModSets) lockInvFor(call *ssa.CallCommon) (*LockInv, string) {
	f, ok := call.Value.(*ssa.Function)
	if !ok || len(call.Args) == 0 {
		return nil, ""
	}
	var op string
	switch f.String() {
	case "(*sync.Mutex).Lock", "(*sync.RWMutex).Lock":
		op = "lock"
	case "(*sync.RWMutex).RLock":
		op = "rlock"
	case "(*sync.Mutex).Unlock", "(*sync.RWMutex).Unlock":
		op = "unlock"
	case "(*sync.RWMutex).RUnlock":
		op = "runlock"
	default:
		return nil, ""
	}
	fa, ok := call.Args[0].(*ssa.FieldAddr)
	if !ok {
		return nil, op
	}
	styp := deref(fa.X.Type())
	n, ok := styp.(*types.Named)
	if !ok {
		return nil, op
	}
	fname := styp.Underlying().(*types.Struct).Field(fa.Field).Name()
	for _, li := range m.sp.LockInvs {
		if li.Type == n.Obj().Name() && li.Mutex == fname && n.Obj().Pkg() != nil && n.Obj().Pkg().Name() == li.Pkg {
			// a lock invariant is part of the proof of the properties it serves: in the check of another property the
			// mutex is an ordinary lock (no havoc of the guarded fields at Lock, no obligation at Unlock)
			if len(li.Serves) > 0 && currentProp != "" && !contains(li.Serves, currentProp) {
				continue
			}
			return li, op
		}
	}
	return nil, op
}

func (m *ModSets) guardedComps(li *LockInv, call *ssa.CallCommon) []string {
	fa := call.Args[0].(*ssa.FieldAddr)
	styp := deref(fa.X.Type())
	st := styp.Underlying().(*types.Struct)
	var out []string
	for _, g := range li.Guards {
		if strings.HasPrefix(g, "ghost.") {
			out = append(out, "ghost:"+g[6:])
			continue
		}
		for i := 0; i < st.NumFields(); i++ {
			if st.Field(i).Name() == g {
				out = append(out, m.regField(styp, i))
			}
		}
	}
	return out
}

// instrMods: the components one instruction may modify (used for loop havoc).
func (m *ModSets) instrMods(fn *ssa.Function, in ssa.Instruction) []string {
	var out []string
	switch x := in.(type) {
	case *ssa.Store:
		out = append(out, m.addrComps(fn, x.Addr)...)
	case *ssa.MapUpdate:
		out = append(out, m.regMap(x.Map.Type())...)
	case *ssa.Alloc, *ssa.MakeSlice, *ssa.MakeMap, *ssa.MakeChan, *ssa.MakeClosure, *ssa.MakeInterface:
		out = append(out, compAlloc)
	case *ssa.RunDefers:
		for _, b := range fn.Blocks {
			for _, i2 := range b.Instrs {
				if d, ok := i2.(*ssa.Defer); ok {
					out = append(out, m.callMods(fn, d.Common())...)
				}
			}
		}
	case ssa.CallInstruction:
		if _, isGo := in.(*ssa.Go); isGo {
			return nil
		}
		if _, isDefer := in.(*ssa.Defer); isDefer {
			return nil
		}
		out = append(out, m.callMods(fn, x.Common())...)
	}
	return out
}

func (m *ModSets) callMods(fn *ssa.Function, call *ssa.CallCommon) []string {
	var out []string
	callees, lib := m.staticCallees(call)
	out = append(out, m.callArgMods(fn, call, lib)...)
	out = append(out, m.lockMods(fn, call)...)
	for _, c := range callees {
		out = append(out, m.modsVisible(c, fn)...)
	}
	for _, c := range m.paramCallees(call) {
		out = append(out, m.modsVisible(c, fn)...)
	}
	if p, ok := call.Value.(*ssa.Parameter); ok && m.onlyCalled(p) {
		// inside the function that owns the parameter nothing is known about the function passed
		for _, c := range m.addrTaken[sigKey(p.Type().Underlying().(*types.Signature))] {
			out = append(out, m.modsVisible(c, fn)...)
		}
	}
	if lib && !nonCallbackPkgs[calleePkgPath(call)] {
		for _, a := range call.Args {
			if mc, ok := a.(*ssa.MakeClosure); ok {
				out = append(out, m.modsVisible(unwrapMethodValue(mc.Fn.(*ssa.Function)), fn)...)
			}
			if f, ok := a.(*ssa.Function); ok && inModule(f) {
				out = append(out, m.modsVisible(f, fn)...)
			}
		}
	}
	out = append(out, compAlloc)
	return out
}

func (m *ModSets) modsVisible(callee, fn *ssa.Function) []string {
	var out []string
	for k := range m.total[callee] {
		if strings.HasPrefix(k, "L:") && !m.cellVisibleTo(k, fn) {
			continue
		}
		out = append(out, k)
	}
	sort.Strings(out)
	return out
}

// freshRoot: the address is a field/element path into an object allocated in the same function
// (new(T), &T{...}, a local array, make([]T, n)) - directly, without passing through the heap or a phi.
func freshRoot(addr ssa.Value) bool {
	for depth := 0; depth < 16; depth++ {
		switch x := addr.(type) {
		case *ssa.FieldAddr:
			addr = x.X
		case *ssa.IndexAddr:
			addr = x.X
		case *ssa.Slice:
			addr = x.X
		case *ssa.Alloc:
			// struct / array allocation (cells of scalars are handled as locals anyway)
			switch deref(x.Type()).Underlying().(type) {
			case *types.Struct, *types.Array:
				return true
			}
			return false
		case *ssa.MakeSlice:
			return true
		default:
			return false
		}
	}
	return false
}

// computeGlobalUse: which package-level variables a function can reach (itself or through module callees).
func (m *ModSets) computeGlobalUse() {
	m.globalUse = map[*ssa.Function]map[string]bool{}
	for _, fn := range m.w.AllFn {
		u := map[string]bool{}
		for _, b := range fn.Blocks {
			for _, in := range b.Instrs {
				var ops []*ssa.Value
				for _, op := range in.Operands(ops) {
					if op == nil || *op == nil {
						continue
					}
					if g, ok := (*op).(*ssa.Global); ok && g.Pkg != nil && isModPath(g.Pkg.Pkg.Path()) {
						u[g.Pkg.Pkg.Name()+"."+g.Name()] = true
					}
				}
			}
		}
		m.globalUse[fn] = u
	}
	changed := true
	for changed {
		changed = false
		for _, fn := range m.w.AllFn {
			u := m.globalUse[fn]
			for _, c := range m.callees[fn] {
				for k := range m.globalUse[c] {
					if !u[k] {
						u[k] = true
						changed = true
					}
				}
			}
		}
	}
}

// cannotReturnGlobal: no possible callee of the call can reach the named package-level variable.
func (m *ModSets) cannotReturnGlobal(call *ssa.CallCommon, global string) bool {
	callees, _ := m.staticCallees(call)
	for _, c := range callees {
		if m.globalUse[c][global] {
			return false
		}
	}
	if _, ok := call.Value.(*ssa.Builtin); ok {
		return true
	}
	if call.IsInvoke() || len(callees) > 0 {
		return true
	}
	if f, ok := call.Value.(*ssa.Function); ok && !inModule(f) {
		return true
	}
	return false // dynamic call through an unknown function value
}

// readOnlyPtrArg: library functions that only read the structs their pointer arguments refer to.
func readOnlyPtrArg(call *ssa.CallCommon) bool {
	pp := calleePkgPath(call)
	switch pp {
	case "fmt", "errors", "github.com/pkg/errors", "google.golang.org/grpc/status", "context", "sync", "sync/atomic", "time",
		"github.com/sirupsen/logrus", "log", "strings", "bytes", "os", "path/filepath", "runtime", "reflect":
		return true
	}
	if f, ok := call.Value.(*ssa.Function); ok {
		switch f.String() {
		case "github.com/golang/protobuf/proto.Marshal", "google.golang.org/protobuf/proto.Marshal", "encoding/json.Marshal",
			"(*github.com/nats-io/nats.go.Conn).Publish", "(*github.com/nats-io/nats.go.Conn).Request", "(*github.com/nats-io/nats.go.Msg).Respond":
			return true
		}
	}
	if call.IsInvoke() {
		switch call.Method.Name() {
		case "Debugf", "Infof", "Warnf", "Errorf", "Info", "Debug", "Error", "Warn", "Send", "Marshal", "String", "Error()", "Context":
			return true
		}
	}
	return false
}

// libMayFill: can the library callee write the fields of a struct of this type? Structs defined in
// the module are filled by library code only through decoders (reflection); other structs always may be.
func libMayFill(call *ssa.CallCommon, t types.Type) bool {
	n, ok := t.(*types.Named)
	if !ok || n.Obj().Pkg() == nil || !isModPath(n.Obj().Pkg().Path()) {
		return true
	}
	name := ""
	if f, ok := call.Value.(*ssa.Function); ok {
		name = f.Name()
	} else if call.IsInvoke() {
		name = call.Method.Name()
	}
	for _, k := range []string{"Unmarshal", "Decode", "Read", "Scan", "Parse"} {
		if strings.Contains(name, k) {
			return true
		}
	}
	return false
}

// unwrapMethodValue: a method value (c.m handed on as a function) is a closure over a synthetic wrapper
// ("(*T).m$bound"); its effects are those of the method it wraps.
func unwrapMethodValue(f *ssa.Function) *ssa.Function {
	if f != nil && f.Synthetic != "" && (strings.HasSuffix(f.Name(), "$bound") || strings.HasSuffix(f.Name(), "$thunk")) {
		if obj, ok := f.Object().(*types.Func); ok && f.Prog != nil {
			if m := f.Prog.FuncValue(obj); m != nil && len(m.Blocks) > 0 {
				return m
			}
		}
	}
	return f
}
