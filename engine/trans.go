package main

import (
	"fmt"
	"go/constant"
	"go/token"
	"go/types"
	"hash/crc32"
	"math/big"
	"regexp"
	"sort"
	"strings"

	"golang.org/x/tools/go/ssa"
)

// Val is the translator-level meaning of an SSA value.
type Val struct {
	T        Term
	Loc      *Loc // set for pointers that are locations rather than object references
	Tup      []*Val
	KnownLen int // for slices made from fixed-size arrays: static length, else -1
	Closure  *ssa.MakeClosure
	Fn       *ssa.Function // static function value
}

type Obligation struct {
	Name   string
	Kind   string
	Fn     string
	Pos    string
	Desc   string
	Reach  Term
	Goal   Term
	Prop   []string
	Expect string // "unsat" (proof obligation) or "sat" (vacuity/cover: must be satisfiable)
	// results
	Status  string // discharged, refuted, undecided, cover-ok, cover-failed
	Solver  string
	Ms      int64
	Model   string
	Query   string
	Inputs  []inputTerm
	Context *Ctx
	NAssert int // number of background assertions visible to this obligation
}

type inputTerm struct {
	Name string
	T    Term
}

type loopInfo struct {
	head    *ssa.BasicBlock
	body    map[*ssa.BasicBlock]bool
	ord     int    // source ordinal (1-based)
	label   string // for goto loops
	invs    []*Clause
	mods    map[string]bool
	hasCall bool
}

type retInfo struct {
	blk     *ssa.BasicBlock
	results []*Val
	st      *State
	reach   Term
	panicky bool
}

type Tr struct {
	w   *World
	sp  *Specs
	ms  *ModSets
	fn  *ssa.Function
	key string
	ct  *Contract
	c   *Ctx

	vals        map[ssa.Value]*Val
	rangeDom0   map[*ssa.Range]Term // domain of the map at the start of a range loop over it
	reach       map[*ssa.BasicBlock]Term
	outSt       map[*ssa.BasicBlock]*State
	edgeCond    map[[2]int]Term
	backEdge    map[[2]int]bool
	loops       map[*ssa.BasicBlock]*loopInfo
	order       []*ssa.BasicBlock
	obls        []*Obligation
	ord         map[string]int
	rets        []*retInfo
	notes       []string
	defers      []*deferRec
	paramEnv    map[string]*SVal
	entrySt     *State
	verify      bool
	curBlk      *ssa.BasicBlock
	curSt       *State
	heldLocks   []heldLock
	ghostAt     map[string][]*ghostStmt
	callOrd     map[string]int
	trusted     map[string]bool // assumed contracts / library models used
	unsupported []string
	specDefs    map[string]*specDef
	pseudoArgs  []ssa.Value
	onlyInstrs  map[ssa.Instruction]bool // when set: translate only these (plus control flow)
	clauseHits  map[*Clause]int          // call clauses: number of call sites each one matched
	aliases     map[string]string        // contract identifier -> local of the current source (a renamed local, see rebindRenamedLocals)
}

type deferRec struct {
	d     *ssa.Defer
	blk   *ssa.BasicBlock
	reach Term
}

type heldLock struct {
	li  *LockInv
	obj Term
}

// clauseLabel returns the [label] of a call clause, "" if it has none.
func clauseLabel(text string) string {
	if i := strings.Index(text, "["); i >= 0 {
		if j := strings.Index(text[i:], "]"); j > 0 {
			return text[i+1 : i+j]
		}
	}
	return ""
}

func (t *Tr) note(f string, a ...interface{}) {
	s := fmt.Sprintf(f, a...)
	for _, n := range t.notes {
		if n == s {
			return
		}
	}
	t.notes = append(t.notes, s)
}

func (t *Tr) unsup(f string, a ...interface{}) {
	s := fmt.Sprintf(f, a...)
	for _, n := range t.unsupported {
		if n == s {
			return
		}
	}
	t.unsupported = append(t.unsupported, s)
}

func newTr(w *World, sp *Specs, ms *ModSets, fn *ssa.Function) *Tr {
	key := ""
	if fn != nil {
		key = funcKey(fn)
	}
	t := &Tr{w: w, sp: sp, ms: ms, fn: fn, key: key, c: newCtx(w),
		vals: map[ssa.Value]*Val{}, reach: map[*ssa.BasicBlock]Term{}, outSt: map[*ssa.BasicBlock]*State{},
		edgeCond: map[[2]int]Term{}, backEdge: map[[2]int]bool{}, loops: map[*ssa.BasicBlock]*loopInfo{},
		ord: map[string]int{}, callOrd: map[string]int{}, trusted: map[string]bool{}, ghostAt: map[string][]*ghostStmt{}}
	t.ct = sp.Contracts[t.key]
	if t.ct == nil && sp.Implicit != nil {
		t.ct = sp.Implicit[t.key]
	}
	t.c.regComp(compAlloc, SInt)
	return t
}

// ---------------------------------------------------------------------------
// obligations

// a clause label of the form [Cxx:name] restricts the clause to the check of property Cxx (a function may serve
// several properties with clauses that belong to one of them only)
var clausePropRe = regexp.MustCompile(`(?:^|\.)(C\d\d):`)

// currentProp is the property being checked ("" = all)
var currentProp string

func (t *Tr) addObl(kind, suffix string, pos token.Pos, reach, goal Term, desc string) *Obligation {
	if !t.verify {
		return nil
	}
	if m := clausePropRe.FindStringSubmatch(suffix); m != nil && currentProp != "" && m[1] != currentProp {
		return nil
	}
	name := t.key + "#" + kind
	if suffix != "" {
		name += "@" + suffix
	}
	t.ord[name]++
	if n := t.ord[name]; n > 1 || kind == "index" || kind == "slice" || kind == "nil" || kind == "div" || kind == "pre" || kind == "call" {
		name = fmt.Sprintf("%s#%d", name, n)
	}
	o := &Obligation{Name: name, Kind: kind, Fn: t.key, Pos: t.w.pos(pos), Reach: reach, Goal: goal, Desc: desc, Expect: "unsat", Context: t.c, NAssert: len(t.c.asserts)}
	if t.ct != nil {
		o.Prop = t.ct.Serves
	}
	t.obls = append(t.obls, o)
	return o
}

func (t *Tr) safety() bool {
	if t.ct == nil || !t.ct.Safety {
		return false
	}
	return len(t.ct.SafetyFor) == 0 || currentProp == "" || contains(t.ct.SafetyFor, currentProp)
}

func (t *Tr) safetyObl(kind string, pos token.Pos, goal Term, desc string) {
	if t.safety() {
		t.addObl(kind, "", pos, t.reach[t.curBlk], goal, desc)
	}
	// execution continues past this instruction only if it did not panic (postconditions speak about normal
	// return; without a `safety` clause the absence of the panic is not claimed, only not contradicted)
	t.c.assert(implies(t.reach[t.curBlk], goal))
}

// ---------------------------------------------------------------------------
// values

func (t *Tr) constVal(k *ssa.Const) *Val {
	typ := k.Type()
	if k.Value == nil {
		return &Val{T: t.c.zero(typ), KnownLen: -1}
	}
	switch k.Value.Kind() {
	case constant.Bool:
		return &Val{T: tBool(constant.BoolVal(k.Value)), KnownLen: -1}
	case constant.String:
		return &Val{T: smtString(constant.StringVal(k.Value)), KnownLen: -1}
	case constant.Int:
		if b, ok := types.Unalias(typ).Underlying().(*types.Basic); ok && b.Info()&types.IsFloat != 0 {
			return &Val{T: Term{constant.ToInt(k.Value).ExactString() + ".0", SReal}, KnownLen: -1}
		}
		n, _ := new(big.Int).SetString(k.Value.ExactString(), 10)
		return &Val{T: tBig(n), KnownLen: -1}
	case constant.Float:
		f, _ := constant.Float64Val(k.Value)
		if iv := constant.ToInt(k.Value); iv.Kind() == constant.Int {
			if b, ok := types.Unalias(typ).Underlying().(*types.Basic); ok && b.Info()&types.IsInteger != 0 {
				n, _ := new(big.Int).SetString(iv.ExactString(), 10)
				return &Val{T: tBig(n), KnownLen: -1}
			}
		}
		s := fmt.Sprintf("%f", f)
		if f < 0 {
			s = fmt.Sprintf("(- %f)", -f)
		}
		return &Val{T: Term{s, SReal}, KnownLen: -1}
	}
	return &Val{T: t.c.fresh("const", t.c.sortOf(typ)), KnownLen: -1}
}

func (t *Tr) val(v ssa.Value) *Val {
	if x, ok := t.vals[v]; ok {
		return x
	}
	switch k := v.(type) {
	case *ssa.Const:
		return t.constVal(k)
	case *ssa.Global:
		l := t.globalLoc(k)
		x := &Val{Loc: l, KnownLen: -1}
		t.vals[v] = x
		return x
	case *ssa.Function:
		x := &Val{T: t.funcConst(k), Fn: k, KnownLen: -1}
		t.vals[v] = x
		return x
	case *ssa.Builtin:
		return &Val{T: tInt(0), KnownLen: -1}
	case *ssa.FreeVar:
		x := t.freeVarVal(k)
		t.vals[v] = x
		return x
	}
	if u, ok := v.(*ssa.UnOp); ok {
		if g, ok := u.X.(*ssa.Global); ok && g.Name() == "init$guard" {
			// verifying an initialiser: its first (only effective) execution
			x := &Val{T: tFalse, KnownLen: -1}
			t.vals[v] = x
			return x
		}
	}
	// value defined in a block not yet translated (e.g. unreachable): unconstrained
	x := t.havocVal(v.Name()+"?", v.Type())
	t.vals[v] = x
	return x
}

func (t *Tr) funcConst(f *ssa.Function) Term {
	c := t.c.declConst("fn:"+f.String(), SInt)
	t.c.fact(lt(tInt(0), c))
	return c
}

func (t *Tr) globalLoc(g *ssa.Global) *Loc {
	pt := g.Type().(*types.Pointer).Elem()
	pk := "?"
	if g.Pkg != nil {
		pk = g.Pkg.Pkg.Name()
	}
	if at, ok := pt.Underlying().(*types.Array); ok {
		// a package-level array (a dispatch table, say): an array object of its own - a fixed reference no allocation
		// returns - whose elements are whatever the element memory holds there (unconstrained unless a globalinv says more)
		ref := tInt(-1000000 - int64(crc32.ChecksumIEEE([]byte(pk+"."+g.Name()))%1000000))
		return &Loc{Kind: "arr", Comp: t.regElem(at.Elem()), Idx: ref, Typ: pt, Len: tInt(at.Len())}
	}
	comp := compGlobal(pk, g.Name())
	t.c.regComp(comp, t.c.sortOf(pt))
	return &Loc{Kind: "global", Comp: comp, Typ: pt}
}

// freeVarVal resolves a closure's free variable: a pointer to a cell of the enclosing function.
func (t *Tr) freeVarVal(fv *ssa.FreeVar) *Val {
	pt, isPtr := fv.Type().(*types.Pointer)
	if isPtr {
		comp, typ := freeVarCell(t.fn, fv)
		if comp != "" {
			if _, _, isStruct := isNamedStruct(typ); !isStruct || true {
				t.c.regComp(comp, t.c.sortOf(typ))
				return &Val{Loc: &Loc{Kind: "cell", Comp: comp, Typ: typ}, KnownLen: -1}
			}
		}
		_ = pt
	}
	return t.havocVal("fv."+fv.Name(), fv.Type())
}

// freeVarCell finds the Alloc in an enclosing function that a free variable is bound to.
func freeVarCell(fn *ssa.Function, fv *ssa.FreeVar) (string, types.Type) {
	c, t, _ := freeVarCellOwner(fn, fv)
	return c, t
}

func freeVarCellOwner(fn *ssa.Function, fv *ssa.FreeVar) (string, types.Type, *ssa.Function) {
	idx := -1
	for i, f := range fn.FreeVars {
		if f == fv {
			idx = i
		}
	}
	par := fn.Parent()
	if idx < 0 || par == nil {
		return "", nil, nil
	}
	for _, b := range par.Blocks {
		for _, in := range b.Instrs {
			mc, ok := in.(*ssa.MakeClosure)
			if !ok || mc.Fn != fn {
				continue
			}
			switch bv := mc.Bindings[idx].(type) {
			case *ssa.Alloc:
				return cellName(bv), bv.Type().(*types.Pointer).Elem(), par
			case *ssa.FreeVar:
				return freeVarCellOwner(par, bv)
			}
		}
	}
	return "", nil, nil
}

func cellName(a *ssa.Alloc) string {
	return "L:" + funcKey(a.Parent()) + "." + a.Comment + "." + a.Name()
}

// havocVal makes an unconstrained value of a Go type (with its type facts).
func (t *Tr) havocVal(name string, typ types.Type) *Val {
	if tup, ok := typ.(*types.Tuple); ok {
		v := &Val{KnownLen: -1}
		for i := 0; i < tup.Len(); i++ {
			v.Tup = append(v.Tup, t.havocVal(fmt.Sprintf("%s.%d", name, i), tup.At(i).Type()))
		}
		return v
	}
	x := t.c.fresh(name, t.c.sortOf(typ))
	t.c.assert(t.c.typeFact(typ, x))
	return &Val{T: x, KnownLen: -1}
}

// allocFact: a pointer-like value read in state st refers to an allocated object.
func (t *Tr) allocFact(st *State, typ types.Type, v Term) {
	t.allocFactW(t.c.get(st, compAlloc), typ, v)
}

func (t *Tr) allocFactW(w Term, typ types.Type, v Term) {
	switch types.Unalias(typ).Underlying().(type) {
	case *types.Pointer, *types.Map, *types.Chan:
		t.c.fact(lt(v, w))
	case *types.Slice:
		t.c.fact(lt(sArr(v), w))
	}
}

// loadFact: a reference loaded from location l is bounded by the watermark of the component version read.
func (t *Tr) loadFact(st *State, l *Loc, typ types.Type, v Term) {
	t.allocFactW(t.c.watermark(st, t.c.get(st, l.Comp)), typ, v)
}

func (t *Tr) define(v ssa.Value, x *Val) {
	if x.T.S != "" && x.Loc == nil && len(x.T.S) > 24 {
		nm := t.c.declConst(v.Name(), x.T.Sort)
		t.c.assert(eq(nm, x.T))
		x = &Val{T: nm, KnownLen: x.KnownLen, Closure: x.Closure, Fn: x.Fn}
	}
	t.vals[v] = x
}

// term returns the first-class term of an SSA value; locations that must become
// first-class are abstracted to an opaque pointer.
func (t *Tr) term(v ssa.Value) Term {
	x := t.val(v)
	if x.Loc != nil {
		return t.opaquePtr(x.Loc)
	}
	if x.T.S == "" {
		return tInt(0)
	}
	return x.T
}

func (t *Tr) opaquePtr(l *Loc) Term {
	// a UF of the location's identity keeps equal locations equal
	switch l.Kind {
	case "field":
		f := t.c.declFun("addr:"+l.Comp+fmt.Sprint(l.Path), []Sort{SInt}, SInt)
		r := app(f, SInt, l.Idx)
		t.c.fact(lt(tInt(0), r))
		return r
	case "elem":
		f := t.c.declFun("addr:"+l.Comp+fmt.Sprint(l.Path), []Sort{SInt, SInt}, SInt)
		r := app(f, SInt, l.Idx, l.Idx2)
		t.c.fact(lt(tInt(0), r))
		return r
	case "arr":
		return l.Idx
	case "opaque":
		return l.Idx
	}
	c := t.c.declConst("addr:"+l.Comp+fmt.Sprint(l.Path), SInt)
	t.c.fact(lt(tInt(0), c))
	return c
}

// ---------------------------------------------------------------------------
// CFG preparation

func (t *Tr) prepareCFG() {
	fn := t.fn
	if len(fn.Blocks) == 0 {
		return
	}
	for _, b := range fn.Blocks {
		for _, s := range b.Succs {
			if s.Dominates(b) {
				t.backEdge[[2]int{b.Index, s.Index}] = true
			}
		}
	}
	// reverse post-order over the acyclic graph
	seen := map[*ssa.BasicBlock]bool{}
	var post []*ssa.BasicBlock
	var dfs func(b *ssa.BasicBlock)
	dfs = func(b *ssa.BasicBlock) {
		seen[b] = true
		for _, s := range b.Succs {
			if t.backEdge[[2]int{b.Index, s.Index}] || seen[s] {
				continue
			}
			dfs(s)
		}
		post = append(post, b)
	}
	dfs(fn.Blocks[0])
	for i := len(post) - 1; i >= 0; i-- {
		t.order = append(t.order, post[i])
	}
	// loops
	for _, b := range fn.Blocks {
		for _, s := range b.Succs {
			if !t.backEdge[[2]int{b.Index, s.Index}] {
				continue
			}
			li := t.loops[s]
			if li == nil {
				li = &loopInfo{head: s, body: map[*ssa.BasicBlock]bool{s: true}, mods: map[string]bool{}}
				t.loops[s] = li
			}
			// natural loop: nodes that reach b without passing through s
			var stack []*ssa.BasicBlock
			if !li.body[b] {
				li.body[b] = true
				stack = append(stack, b)
			}
			for len(stack) > 0 {
				x := stack[len(stack)-1]
				stack = stack[:len(stack)-1]
				for _, p := range x.Preds {
					if !li.body[p] && seen[p] {
						li.body[p] = true
						stack = append(stack, p)
					}
				}
			}
		}
	}
	// source ordinals: order loop headers by the position of their first instruction with a valid pos
	var heads []*loopInfo
	for _, li := range t.loops {
		heads = append(heads, li)
	}
	sort.Slice(heads, func(i, j int) bool { return t.loopPos(heads[i]) < t.loopPos(heads[j]) })
	for i, li := range heads {
		li.ord = i + 1
		if t.ct != nil {
			for _, inv := range t.ct.LoopInv {
				if inv.Loop == fmt.Sprint(li.ord) {
					li.invs = append(li.invs, inv)
				}
			}
		}
	}
}

// loopPos approximates the source position of a loop by the smallest valid position in its body
// excluding the header's predecessors (the `for` statement's own position precedes the body).
func (t *Tr) loopPos(li *loopInfo) token.Pos {
	best := token.Pos(1 << 40)
	for b := range li.body {
		for _, in := range b.Instrs {
			if p := in.Pos(); p.IsValid() && p < best {
				best = p
			}
		}
	}
	return best
}

// ---------------------------------------------------------------------------
// main translation

func (t *Tr) run(verify bool) {
	t.verify = verify
	fn := t.fn
	if len(fn.Blocks) == 0 {
		return
	}
	t.prepareCFG()
	t.entrySt = newState()
	// parameters
	for _, p := range fn.Params {
		v := &Val{T: t.c.declConst(p.Name(), t.c.sortOf(p.Type())), KnownLen: -1}
		t.c.assert(t.c.typeFact(p.Type(), v.T))
		t.allocFact(t.entrySt, p.Type(), v.T)
		t.vals[p] = v
	}
	t.c.fact(lt(tInt(0), t.c.initial(compAlloc)))
	t.setupGhostStmts()
	// assume preconditions
	env := t.entryEnv(t.entrySt)
	if t.ct != nil {
		for _, r := range append(append(append([]*Clause{}, t.ct.Requires...), t.ct.Assumes...), t.ct.Preserves...) {
			tm, err := env.boolExpr(r.E)
			if err != nil {
				t.unsup("requires (%s:%d): %v", r.File, r.Line, err)
				continue
			}
			t.c.assert(tm)
		}
	}
	t.assumeGlobalInvs(t.entrySt, tTrue)
	for _, b := range t.order {
		t.block(b)
	}
	t.finish()
}

func (t *Tr) edge(p, b *ssa.BasicBlock) Term {
	r, ok := t.reach[p]
	if !ok {
		return tFalse
	}
	c, ok := t.edgeCond[[2]int{p.Index, b.Index}]
	if !ok {
		return tFalse
	}
	return and(r, c)
}

func (t *Tr) block(b *ssa.BasicBlock) {
	t.curBlk = b
	var st *State
	if b.Index == 0 {
		st = t.entrySt.clone()
		t.reach[b] = tTrue
	} else {
		var edges []Term
		var states []*State
		var preds []*ssa.BasicBlock
		for _, p := range b.Preds {
			if t.backEdge[[2]int{p.Index, b.Index}] {
				continue
			}
			if _, ok := t.reach[p]; !ok {
				continue
			}
			edges = append(edges, t.edge(p, b))
			states = append(states, t.outSt[p])
			preds = append(preds, p)
		}
		if len(edges) == 0 {
			return // unreachable
		}
		r := t.c.declConst(fmt.Sprintf("reach%d", b.Index), SBool)
		t.c.assert(eq(r, or(edges...)))
		t.reach[b] = r
		st = t.c.mergeStates(fmt.Sprintf("b%d", b.Index), edges, states)
		li := t.loops[b]
		// phis
		for _, in := range b.Instrs {
			phi, ok := in.(*ssa.Phi)
			if !ok {
				break
			}
			if li != nil {
				continue // handled below
			}
			t.definePhi(phi, b, preds, edges)
		}
		if li != nil {
			t.loopHeader(li, b, preds, edges, st)
		}
	}
	t.curSt = st
	for _, in := range b.Instrs {
		if _, ok := in.(*ssa.Phi); ok {
			continue
		}
		t.instr(in)
	}
	t.outSt[b] = t.curSt
}

func (t *Tr) definePhi(phi *ssa.Phi, b *ssa.BasicBlock, preds []*ssa.BasicBlock, edges []Term) {
	// value = ite chain over incoming edges
	var cur *Val
	for i := len(preds) - 1; i >= 0; i-- {
		var ev ssa.Value
		for j, p := range b.Preds {
			if p == preds[i] {
				ev = phi.Edges[j]
			}
		}
		x := t.val(ev)
		xt := t.term(ev)
		if cur == nil {
			cur = &Val{T: xt, KnownLen: x.KnownLen}
		} else {
			cur = &Val{T: ite(edges[i], xt, cur.T), KnownLen: -1}
		}
	}
	nm := t.c.declConst(phi.Name(), t.c.sortOf(phi.Type()))
	t.c.assert(eq(nm, cur.T))
	t.vals[phi] = &Val{T: nm, KnownLen: -1}
}

// ---------------------------------------------------------------------------
// loops

func (t *Tr) loopHeader(li *loopInfo, b *ssa.BasicBlock, preds []*ssa.BasicBlock, edges []Term, st *State) {
	// 1. invariant on entry: phis take their entry values
	entryVals := map[*ssa.Phi]*Val{}
	for _, in := range b.Instrs {
		phi, ok := in.(*ssa.Phi)
		if !ok {
			break
		}
		var cur *Val
		for i := len(preds) - 1; i >= 0; i-- {
			var ev ssa.Value
			for j, p := range b.Preds {
				if p == preds[i] {
					ev = phi.Edges[j]
				}
			}
			xt := t.term(ev)
			if cur == nil {
				cur = &Val{T: xt, KnownLen: -1}
			} else {
				cur = &Val{T: ite(edges[i], xt, cur.T), KnownLen: -1}
			}
		}
		entryVals[phi] = cur
	}
	for k, inv := range li.invs {
		for phi, v := range entryVals {
			t.vals[phi] = v
		}
		env := t.loopEnv(li, st)
		g, err := env.boolExpr(inv.E)
		if err != nil {
			t.unsup("loop %d invariant (%s:%d): %v", li.ord, inv.File, inv.Line, err)
			continue
		}
		t.addObl("inv-entry", fmt.Sprintf("loop%d.%d", li.ord, k+1), b.Instrs[0].Pos(), t.reach[b], g, "loop invariant holds on entry: "+inv.Text)
	}
	// 2. havoc what the loop modifies
	t.loopMods(li)
	oldAlloc := t.c.get(st, compAlloc)
	var names []string
	for m := range li.mods {
		names = append(names, m)
	}
	sort.Strings(names)
	for _, m := range names {
		if _, ok := t.c.compSort[m]; !ok {
			continue // component never touched by this function's translation so far; registered lazily below
		}
		t.c.havoc(st, m)
	}
	t.c.fact(le(oldAlloc, t.c.get(st, compAlloc)))
	li.hasCall = true
	for _, in := range b.Instrs {
		phi, ok := in.(*ssa.Phi)
		if !ok {
			break
		}
		v := t.havocVal(phi.Name(), phi.Type())
		t.allocFact(st, phi.Type(), v.T)
		t.vals[phi] = v
	}
	// 3. assume the invariant for the arbitrary iteration
	for _, inv := range li.invs {
		env := t.loopEnv(li, st)
		g, err := env.boolExpr(inv.E)
		if err != nil {
			continue
		}
		t.c.assert(implies(t.reach[b], g))
	}
	t.assumeGlobalInvs(st, t.reach[b])
	for _, gs := range t.ghostAt["loop"] {
		if gs.callee == fmt.Sprint(li.ord) {
			t.applyGhost(gs, t.loopEnv(li, st), st)
		}
	}
}

// loopMods: the components (possibly) modified by the body of a loop.
func (t *Tr) loopMods(li *loopInfo) {
	for b := range li.body {
		for _, in := range b.Instrs {
			for _, m := range t.ms.instrMods(t.fn, in) {
				li.mods[m] = true
			}
		}
	}
	li.mods[compAlloc] = true
	// the visited set of a map range loop changes with every key it produces
	for b := range li.body {
		for _, in := range b.Instrs {
			if nx, ok := in.(*ssa.Next); ok && !nx.IsString {
				if rng, ok := nx.Iter.(*ssa.Range); ok {
					li.mods[compVisited(t.fn, rng)] = true
				}
			}
		}
	}
	// ghost variables assigned by this function's ghost statements, or by contracts of callees
	for _, pt := range []string{"after", "before"} {
		for _, gs := range t.ghostAt[pt] {
			inLoop := false
			for b := range li.body {
				for _, in := range b.Instrs {
					if ci, ok := in.(ssa.CallInstruction); ok && calleeMatches(gs.callee, calleeName(ci.Common())) {
						inLoop = true
					}
				}
			}
			if !inLoop {
				continue
			}
			if _, err := t.baseEnv(t.entrySt).ghostVar(gs.name); err == nil {
				li.mods["ghost:"+gs.name] = true
			}
		}
	}
	for b := range li.body {
		for _, in := range b.Instrs {
			ci, ok := in.(ssa.CallInstruction)
			if !ok {
				continue
			}
			var ct *Contract
			if f := ci.Common().StaticCallee(); f != nil && inModule(f) {
				ct = t.sp.Contracts[funcKey(f)]
			} else if ci.Common().IsInvoke() {
				ct = t.sp.Contracts[t.ifaceKey(ci.Common())]
			}
			if ct == nil {
				continue
			}
			for _, m := range ct.Modifies {
				if strings.HasPrefix(m, "ghost.") {
					if _, err := t.baseEnv(t.entrySt).ghostVar(m[6:]); err == nil {
						li.mods["ghost:"+m[6:]] = true
					}
				}
			}
		}
	}
	// make sure the components are registered in this context
	for m := range li.mods {
		t.ensureComp(m)
	}
}

// backEdgeCheck: invariant preserved along a back edge from block b to header h.
func (t *Tr) backEdgeCheck(b, h *ssa.BasicBlock, cond Term) {
	li := t.loops[h]
	if li == nil {
		return
	}
	saved := map[*ssa.Phi]*Val{}
	for _, in := range h.Instrs {
		phi, ok := in.(*ssa.Phi)
		if !ok {
			break
		}
		saved[phi] = t.vals[phi]
	}
	for k, inv := range li.invs {
		for _, in := range h.Instrs {
			phi, ok := in.(*ssa.Phi)
			if !ok {
				break
			}
			for j, p := range h.Preds {
				if p == b {
					t.vals[phi] = &Val{T: t.term(phi.Edges[j]), KnownLen: -1}
				}
			}
		}
		env := t.loopEnv(li, t.curSt)
		env.backedge = true
		g, err := env.boolExpr(inv.E)
		for phi, v := range saved {
			t.vals[phi] = v
		}
		if err != nil {
			continue
		}
		t.addObl("inv-step", fmt.Sprintf("loop%d.%d", li.ord, k+1), b.Instrs[len(b.Instrs)-1].Pos(), and(t.reach[b], cond), g, "loop invariant preserved: "+inv.Text)
	}
	if t.ct != nil {
		for k, cl := range t.ct.LoopBack {
			if cl.Loop != fmt.Sprint(li.ord) {
				continue
			}
			env := t.pointEnv(nil, nil)
			g, err := env.boolExpr(cl.E)
			if err != nil {
				t.unsup("loop %d backedge requires %q: %v", li.ord, cl.Text, err)
				continue
			}
			name := cl.Name
			if name == "" {
				name = fmt.Sprint(k + 1)
			}
			t.addObl("iter", fmt.Sprintf("loop%d.%s", li.ord, name), b.Instrs[len(b.Instrs)-1].Pos(), and(t.reach[b], cond), g, "at the end of every iteration: "+cl.Text)
		}
	}
}

// ---------------------------------------------------------------------------
// finishing: postconditions, frame, vacuity

func (t *Tr) finish() {
	if !t.verify {
		return
	}
	ct := t.ct
	if ct != nil && t.onlyInstrs == nil {
		// a call clause that matches no call site generates no obligation: it must not pass in silence (a renamed
		// callee, a clause written against the wrong name)
		for _, cl := range ct.Calls {
			f := strings.Fields(cl.Text)
			if len(f) < 3 || f[1] != "requires" || t.clauseHits[cl] > 0 {
				continue
			}
			if m := clausePropRe.FindStringSubmatch(clauseLabel(cl.Text)); m != nil && currentProp != "" && m[1] != currentProp {
				continue // belongs to another property's check
			}
			t.unsup("call clause (%s:%d) matches no call site: %s", cl.File, cl.Line, cl.Text)
		}
	}
	if ct != nil {
		for k, e := range ct.Preserves {
			var parts []Term
			ok := true
			for _, r := range t.rets {
				g, err := t.exitEnv(r).boolExpr(e.E)
				if err != nil {
					t.unsup("preserves (%s:%d): %v", e.File, e.Line, err)
					ok = false
					break
				}
				parts = append(parts, implies(r.reach, g))
			}
			if ok {
				name := e.Name
				if name == "" {
					name = fmt.Sprint(k + 1)
				}
				t.addObl("preserve", name, t.fn.Pos(), tTrue, and(parts...), "preserved by every call of the closure: "+e.Text)
			}
		}
		for k, e := range ct.Ensures {
			if e.Assumed {
				t.trusted["assumed postcondition of "+ct.Key+" (not proved for its body): "+e.Text] = true
				continue
			}
			var parts []Term
			failed := false
			for _, r := range t.rets {
				env := t.exitEnv(r)
				g, err := env.boolExpr(e.E)
				if err != nil {
					t.unsup("ensures (%s:%d): %v", e.File, e.Line, err)
					failed = true
					break
				}
				parts = append(parts, implies(r.reach, g))
			}
			if failed {
				continue
			}
			lbl := e.Name
			if lbl == "" {
				lbl = fmt.Sprint(k + 1)
			}
			t.addObl("post", lbl, t.fn.Pos(), tTrue, and(parts...), "postcondition: "+e.Text)
		}
		t.frameObligations()
	}
	// cover: some return is reachable under the assumptions (vacuity guard)
	var rs []Term
	for _, r := range t.rets {
		rs = append(rs, r.reach)
	}
	if len(rs) > 0 {
		o := t.addObl("cover", "return", t.fn.Pos(), or(rs...), tFalse, "vacuity guard: a return is reachable under the contract's assumptions")
		if o != nil {
			o.Expect = "sat"
		}
	}
}
