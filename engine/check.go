package main

import (
	"os/exec"
	"sync"
	"encoding/json"
	"go/types"
	"reflect"
	"flag"
	"fmt"
	"os"
	"path/filepath"
	"regexp"
	"sort"
	"strconv"
	"strings"
	"time"

	"golang.org/x/tools/go/ssa"
)

type finding struct {
	Prop string
	Obl  string
	What string
}

func loadKnownFindings(path string) (known []finding, fixed []string) {
	data, err := os.ReadFile(path)
	if err != nil {
		return nil, nil
	}
	for _, l := range strings.Split(string(data), "\n") {
		l = strings.TrimSpace(l)
		if strings.HasPrefix(l, "fixed:") {
			fixed = append(fixed, l)
			continue
		}
		if !strings.HasPrefix(l, "finding:") {
			continue
		}
		f := finding{}
		rest := strings.TrimSpace(strings.TrimPrefix(l, "finding:"))
		for _, w := range strings.Fields(rest) {
			if strings.HasPrefix(w, "property=") {
				f.Prop = strings.TrimPrefix(w, "property=")
			} else if strings.HasPrefix(w, "obligation=") {
				f.Obl = strings.TrimPrefix(w, "obligation=")
			}
		}
		if i := strings.Index(rest, " -- "); i >= 0 {
			f.What = strings.TrimSpace(rest[i+4:])
		}
		known = append(known, f)
	}
	return
}

var unknownIdentRe = regexp.MustCompile(`unknown identifier "([A-Za-z_][A-Za-z_0-9]*)"`)
var identTokenRe = regexp.MustCompile(`[A-Za-z_][A-Za-z_0-9]*`)

// rebindRenamedLocals: a contract names local variables of the function (loop invariants have to). When a clause
// fails to elaborate because such a name no longer exists in the source, the local has most likely been RENAMED - a
// harmless edit that must not raise an alarm. The names of the function's current locals that the contract does not
// mention are tried in its place; a rebinding is accepted only if the whole contract then elaborates AND every
// obligation of the function discharges. This is sound for the obligations proved (a loop invariant is proved
// inductive under whatever name it is stated; a call clause is proved at its call site); the accepted rebinding is
// printed and listed among the assumptions of the run.
func rebindRenamedLocals(tr *Tr, fn *ssa.Function, ct *Contract, translate func(map[string]string) *Tr, workDir string, sec, seed int, knownObl map[string]bool) (*Tr, string) {
	missing := map[string]bool{}
	for _, u := range tr.unsupported {
		for _, m := range unknownIdentRe.FindAllStringSubmatch(u, -1) {
			missing[m[1]] = true
		}
	}
	if len(missing) == 0 || len(missing) > 2 || ct == nil {
		return nil, ""
	}
	mentioned := map[string]bool{}
	for _, cls := range [][]*Clause{ct.Requires, ct.Assumes, ct.Ensures, ct.LoopInv, ct.LoopBack, ct.Panics, ct.Ghost, ct.Calls, ct.Asserts, ct.Preserves} {
		for _, c := range cls {
			for _, tok := range identTokenRe.FindAllString(c.Text, -1) {
				mentioned[tok] = true
			}
		}
	}
	params := map[string]bool{}
	for _, p := range fn.Params {
		params[p.Name()] = true
	}
	candSet := map[string]bool{}
	for _, b := range fn.Blocks {
		for _, in := range b.Instrs {
			name := ""
			switch x := in.(type) {
			case *ssa.Phi:
				name = x.Comment
			case *ssa.Alloc:
				name = x.Comment
			case *ssa.DebugRef:
				if obj := x.Object(); obj != nil {
					if v, isVar := obj.(*types.Var); isVar && !v.IsField() {
						name = obj.Name()
					}
				}
			}
			if name != "" && name != "_" && !mentioned[name] && !params[name] && identTokenRe.FindString(name) == name {
				candSet[name] = true
			}
		}
	}
	for p := range params { // a renamed parameter
		if p != "" && p != "_" && !mentioned[p] {
			candSet[p] = true
		}
	}
	var miss, cands []string
	for m := range missing {
		miss = append(miss, m)
	}
	for c := range candSet {
		cands = append(cands, c)
	}
	sort.Strings(miss)
	sort.Strings(cands)
	dbg := os.Getenv("LBVC_DEBUG_REBIND") != ""
	if dbg {
		fmt.Fprintf(os.Stderr, "rebind %s: missing %v candidates %v\n", tr.key, miss, cands)
	}
	if len(cands) == 0 || len(cands) > 60 || (len(miss) == 2 && len(cands) > 10) {
		return nil, ""
	}
	var tries []map[string]string
	if len(miss) == 1 {
		for _, c := range cands {
			tries = append(tries, map[string]string{miss[0]: c})
		}
	} else {
		for _, c1 := range cands {
			for _, c2 := range cands {
				if c1 != c2 {
					tries = append(tries, map[string]string{miss[0]: c1, miss[1]: c2})
				}
			}
		}
	}
	for _, al := range tries {
		t2 := translate(al)
		clean := true
		before := map[string]bool{}
		for _, u := range tr.unsupported {
			before[u] = true
		}
		for _, u := range t2.unsupported {
			// a reading under which a clause still does not elaborate (or fails in a new way, e.g. a type error)
			// leaves that clause without obligations: not acceptable
			if strings.Contains(u, "unknown identifier") || strings.Contains(u, "translator panic") || !before[u] {
				clean = false
			}
		}
		if !clean || len(t2.unsupported) > len(tr.unsupported) || len(t2.obls) < len(tr.obls) {
			if dbg {
				fmt.Fprintf(os.Stderr, "rebind %s: %v rejected at translation: clean=%v unsupported %d->%d obligations %d->%d %v\n", tr.key, al, clean, len(tr.unsupported), len(t2.unsupported), len(tr.obls), len(t2.obls), t2.unsupported)
			}
			continue
		}
		solveAll(t2.obls, workDir, sec, seed, 10)
		os.RemoveAll(workDir)
		ok := true
		for _, o := range t2.obls {
			if o.Expect == "sat" {
				if o.Status == "cover-failed" {
					ok = false
				}
			} else if o.Status != "discharged" && !knownObl[o.Name] {
				ok = false
				if dbg {
					fmt.Fprintf(os.Stderr, "rebind %s: %v rejected: %s is %s\n", tr.key, al, o.Name, o.Status)
				}
			}
		}
		if !ok {
			continue
		}
		var parts []string
		for _, m := range miss {
			parts = append(parts, fmt.Sprintf("%q is read as the local %q", m, al[m]))
		}
		return t2, "contract identifier " + strings.Join(parts, ", ") + " (the contract names a local that is no longer in the source - renamed; accepted because every obligation of the function discharges under this reading)"
	}
	return nil, ""
}

func loadSpecs(w *World, verifDir string) *Specs {
	sp := newSpecs()
	// contracts kept in the repository next to the code (build tag verif)
	for _, p := range w.Pkgs {
		if !isModPath(p.PkgPath) {
			continue
		}
		files, _ := filepath.Glob(filepath.Join(w.Repo, strings.TrimPrefix(p.PkgPath, modPath), "*_verif.go"))
		sort.Strings(files)
		for _, f := range files {
			data, err := os.ReadFile(f)
			if err != nil {
				continue
			}
			sp.parseSpecText(p.Name, strings.TrimPrefix(f, w.Repo+"/"), string(data))
		}
	}
	// assumed contracts on dependencies and shared spec functions kept in /verif/specs/<pkg>.spec
	files, _ := filepath.Glob(filepath.Join(verifDir, "specs", "*.spec"))
	sort.Strings(files)
	for _, f := range files {
		data, err := os.ReadFile(f)
		if err != nil {
			continue
		}
		pkg := strings.TrimSuffix(filepath.Base(f), ".spec")
		sp.parseSpecText(pkg, "specs/"+filepath.Base(f), string(data))
	}
	return sp
}

func contains(xs []string, x string) bool {
	for _, y := range xs {
		if y == x {
			return true
		}
	}
	return false
}

type fnReport struct {
	Key         string   `json:"function"`
	Pos         string   `json:"position"`
	Obligations int      `json:"obligations"`
	Unsupported []string `json:"unsupported,omitempty"`
	Notes       []string `json:"notes,omitempty"`
}

type oblReport struct {
	Name   string `json:"name"`
	Kind   string `json:"kind"`
	Pos    string `json:"pos"`
	Desc   string `json:"what"`
	Status string `json:"status"`
	Solver string `json:"backend"`
	Ms     int64  `json:"solver_ms"`
}

func cmdCheck(args []string) int {
	fs := flag.NewFlagSet("check", flag.ExitOnError)
	repo := fs.String("repo", "/repo", "repository root")
	verifDir := fs.String("verif", "/verif", "verification directory")
	prop := fs.String("prop", "", "property id")
	tier := fs.String("tier", "quick", "quick|thorough")
	only := fs.String("only", "", "regexp: only obligations whose name matches")
	fnOnly := fs.String("func", "", "verify only this function key (debug)")
	keep := fs.Bool("keep", false, "keep SMT files")
	verbose := fs.Bool("v", false, "verbose")
	noEvidence := fs.Bool("no-evidence", false, "do not write the evidence file")
	replayPath := fs.String("replay", "", "re-run the obligation (or bounded stand-in) recorded in this replay file against the current tree")
	vacuity := fs.Bool("vacuity", false, "also check that the path condition of every discharged obligation is satisfiable (default in the thorough tier)")
	fs.Parse(args)
	boundedOnly := false
	if *replayPath != "" {
		data, err := os.ReadFile(*replayPath)
		if err != nil {
			fmt.Printf("cannot read replay file: %v\n", err)
			return 2
		}
		var rec map[string]interface{}
		json.Unmarshal(data, &rec)
		name, _ := rec["obligation"].(string)
		if name == "" {
			fmt.Printf("replay file %s names no obligation\n", *replayPath)
			return 2
		}
		if p, _ := rec["property"].(string); p != "" && *prop == "" {
			*prop = p
		}
		*noEvidence = true
		if strings.HasPrefix(name, "bounded:") {
			boundedOnly = true
			*only = "^$"
		} else {
			*only = "^" + regexp.QuoteMeta(name) + "$"
		}
		fmt.Printf("replaying %s\n", name)
	}
	currentProp = *prop
	t0 := time.Now()
	seed := 0
	if s := os.Getenv("VERIF_SEED"); s != "" {
		seed, _ = strconv.Atoi(s)
	}
	if s := os.Getenv("VERIF_TIER"); s != "" && (s == "quick" || s == "thorough") {
		*tier = s
	}
	sec := 10
	if *tier == "thorough" {
		sec = 60
	}
	if r := os.Getenv("LBVC_REPO"); r != "" {
		*repo = r
	}
	w, err := loadWorld(*repo)
	if err != nil {
		fmt.Fprintln(os.Stderr, "cannot load repository:", err)
		// a tree that does not compile is not a property violation
		return 2
	}
	sp := loadSpecs(w, *verifDir)
	if len(sp.Errors) > 0 {
		for _, e := range sp.Errors {
			fmt.Fprintln(os.Stderr, "spec error:", e)
		}
		return 2
	}
	tMs0 := time.Now()
	ms := newModSets(w, sp)
	if *verbose {
		fmt.Fprintf(os.Stderr, "load %.1fs modsets %.1fs\n", tMs0.Sub(t0).Seconds(), time.Since(tMs0).Seconds())
	}
	tLoad := time.Since(t0)

	var obls []*Obligation
	var frs []*fnReport
	var undecided []string
	trusted := map[string]bool{}
	knownObls := map[string]bool{}
	if kf, _ := loadKnownFindings(filepath.Join(*verifDir, "known-findings.txt")); kf != nil {
		for _, f := range kf {
			if f.Prop == *prop || *prop == "" {
				knownObls[f.Obl] = true
			}
		}
	}
	var keys []string
	for k, ct := range sp.Contracts {
		if ct.Assumed {
			continue
		}
		if *fnOnly != "" {
			if k == *fnOnly {
				keys = append(keys, k)
			}
			continue
		}
		if contains(ct.Serves, *prop) {
			keys = append(keys, k)
		}
	}
	if *fnOnly == "" {
		keys = append(keys, implicitSafetyTargets(w, sp, keys, *prop)...)
	}
	sort.Strings(keys)
	for _, k := range keys {
		fn := w.Funcs[k]
		if fn == nil || len(fn.Blocks) == 0 {
			undecided = append(undecided, "contract target not found: "+k)
			continue
		}
		if *verbose {
			fmt.Fprintf(os.Stderr, "translating %s\n", k)
		}
		translate := func(aliases map[string]string) *Tr {
			tr := newTr(w, sp, ms, fn)
			tr.aliases = aliases
			func() {
				defer func() {
					if r := recover(); r != nil {
						tr.unsupported = append(tr.unsupported, fmt.Sprintf("translator panic: %v", r))
						if *verbose && aliases == nil {
							panic(r)
						}
					}
				}()
				tr.addAxioms()
				tr.run(true)
			}()
			return tr
		}
		tr := translate(nil)
		if tr2, note := rebindRenamedLocals(tr, fn, sp.Contracts[k], translate, filepath.Join(*verifDir, ".work", fmt.Sprintf("%s-%d-rebind", *prop, os.Getpid())), sec, seed, knownObls); tr2 != nil {
			tr = tr2
			fmt.Printf("NOTE: %s: %s\n", k, note)
			trusted[note] = true
		}
		fr := &fnReport{Key: k, Pos: w.pos(fn.Pos()), Obligations: len(tr.obls), Unsupported: tr.unsupported, Notes: tr.notes}
		frs = append(frs, fr)
		for _, u := range tr.unsupported {
			undecided = append(undecided, k+": "+u)
		}
		for tb := range tr.trusted {
			trusted[tb] = true
		}
		inputs := tr.paramInputs()
		for _, o := range tr.obls {
			if len(o.Prop) == 0 {
				o.Prop = sp.Contracts[k].Serves
			}
			if o.Expect != "sat" {
				o.Inputs = inputs
			}
			obls = append(obls, o)
		}
	}
	// package-level tables: the declared content is established by the package initialiser
	for _, gi := range sp.GlobalInvs {
		if *fnOnly != "" || !contains(gi.Serves, *prop) {
			continue
		}
		fn := w.Funcs[gi.Pkg+".init"]
		if fn == nil || !ms.frozenOK(gi) {
			undecided = append(undecided, fmt.Sprintf("globalinv %s.%s: initialiser not found or the variable is written outside init", gi.Pkg, gi.Global))
			continue
		}
		tr := newTr(w, sp, ms, fn)
		tr.ct = &Contract{Key: gi.Pkg + ".init", Pkg: gi.Pkg, Serves: gi.Serves, Opts: map[string]string{},
			Ensures: []*Clause{{Kind: "ensures", Text: gi.Text, E: gi.E, Line: gi.Line, File: gi.File, Name: "globalinv." + gi.Global}}}
		tr.onlyInstrs = initSlice(fn, sp, gi.Pkg)
		tr.addAxioms()
		tr.run(true)
		frs = append(frs, &fnReport{Key: tr.key + "[" + gi.Global + "]", Pos: w.pos(fn.Pos()), Obligations: len(tr.obls), Unsupported: tr.unsupported})
		for _, u := range tr.unsupported {
			undecided = append(undecided, tr.key+": "+u)
		}
		for _, o := range tr.obls {
			o.Prop = gi.Serves
			obls = append(obls, o)
		}
	}
	// lemmas
	for _, lm := range sp.Lemmas {
		if *fnOnly != "" || !contains(lm.Serves, *prop) {
			continue
		}
		tr := newTr(w, sp, ms, nil)
		tr.key = lm.Pkg + ".lemma." + lm.Name
		tr.verify = true
		tr.entrySt = newState()
		tr.addAxiomsFor(lm.Pkg)
		env := &Env{t: tr, c: tr.c, vars: map[string]*SVal{}, locs: map[string]*Loc{}, st: tr.entrySt, old: tr.entrySt, pkg: tr.pkgByName(lm.Pkg)}
		// a top-level forall is proved for arbitrary named constants, so that a refutation prints its witness
		body := lm.E
		var lemmaInputs []inputTerm
		var guards []Term
		if q, ok := body.(*EQuant); ok && q.Forall {
			skolem := true
			for _, qv := range q.Vars {
				ty, err := env.resolveType(qv.Type)
				if err != nil || ty.Go == nil {
					skolem = false
					break
				}
				if srt := tr.c.sortOfS(ty); srt != SInt && srt != SStr && srt != SBool {
					skolem = false
					break
				}
			}
			if skolem {
				for _, qv := range q.Vars {
					ty, _ := env.resolveType(qv.Type)
					nm := tr.c.declConst("lemma!"+qv.Name, tr.c.sortOfS(ty))
					env.vars[qv.Name] = &SVal{nm, ty}
					env.bound = addBound(env.bound, qv.Name)
					if g := tr.c.typeFact(ty.Go, nm); g.S != "true" {
						guards = append(guards, g)
					}
					lemmaInputs = append(lemmaInputs, inputTerm{qv.Name, nm})
				}
				body = q.Body
			}
		}
		g, err := env.boolExpr(body)
		if err != nil {
			undecided = append(undecided, fmt.Sprintf("lemma %s: %v", lm.Name, err))
			continue
		}
		for _, gd := range guards {
			tr.c.assert(gd)
		}
		o := &Obligation{NAssert: -1, Inputs: lemmaInputs, Name: lm.Pkg + ".lemma." + lm.Name, Kind: "lemma", Fn: tr.key, Pos: fmt.Sprintf("%s:%d", lm.File, lm.Line), Reach: tTrue, Goal: g,
			Desc: "lemma over the contracts: " + lm.Text, Expect: "unsat", Context: tr.c, Prop: lm.Serves}
		obls = append(obls, o)
		for tb := range tr.trusted {
			trusted[tb] = true
		}
		frs = append(frs, &fnReport{Key: tr.key, Pos: o.Pos, Obligations: 1, Unsupported: tr.unsupported})
		for _, u := range tr.unsupported {
			undecided = append(undecided, tr.key+": "+u)
		}
	}
	// structural obligations (call graph / type information)
	for _, st := range sp.Structurals {
		if *fnOnly != "" || !contains(st.Serves, *prop) {
			continue
		}
		o := structuralObligation(w, ms, st)
		o.Prop = st.Serves
		obls = append(obls, o)
		frs = append(frs, &fnReport{Key: o.Fn, Pos: o.Pos, Obligations: 1})
	}
	if *only != "" {
		re := regexp.MustCompile(*only)
		var f []*Obligation
		for _, o := range obls {
			if re.MatchString(o.Name) {
				f = append(f, o)
			}
		}
		obls = f
	}
	workDir := filepath.Join(*verifDir, ".work", fmt.Sprintf("%s-%d", *prop, os.Getpid()))
	tSolve0 := time.Now()
	solveAll(obls, workDir, sec, seed, 10)
	tSolve := time.Since(tSolve0)

	// vacuity: a proof under an unsatisfiable path condition proves nothing
	var vacuous []string
	if *vacuity || *tier == "thorough" || *tier == "quick" {
		var covers []*Obligation
		seen := map[string]bool{}
		for _, o := range obls {
			if o.Expect != "unsat" || o.Status != "discharged" || o.Reach.S == "" || o.Reach.S == "true" || o.Context == nil {
				continue
			}
			k := o.Fn + "|" + o.Reach.S
			if seen[k] {
				continue
			}
			seen[k] = true
			covers = append(covers, &Obligation{Name: o.Name + "!reach", Kind: "reach", Fn: o.Fn, Pos: o.Pos, Reach: o.Reach, Goal: tFalse, Expect: "sat",
				Desc: "the path to " + o.Name + " is feasible", Context: o.Context, NAssert: o.NAssert})
		}
		solveAll(covers, workDir+"-reach", 3, seed, 10)
		os.RemoveAll(workDir + "-reach")
		for _, cvr := range covers {
			if cvr.Status == "cover-failed" {
				vacuous = append(vacuous, cvr.Name)
				fmt.Printf("VACUOUS: %s: the path condition is unsatisfiable under the assumptions (dead code, or an assumption is too strong)\n", strings.TrimSuffix(cvr.Name, "!reach"))
			}
		}
	}
	known, _ := loadKnownFindings(filepath.Join(*verifDir, "known-findings.txt"))
	isKnown := func(o *Obligation) *finding {
		for i := range known {
			if known[i].Obl == o.Name && (known[i].Prop == *prop || *prop == "") {
				return &known[i]
			}
		}
		return nil
	}
	nProof, nDis, nViol := 0, 0, 0
	var reps []oblReport
	var samples []interface{}
	var knownHit []string
	exit := 0
	os.MkdirAll(replayDirOf(*verifDir), 0o755)
	if *prop != "" && *only == "" && *fnOnly == "" {
		old, _ := filepath.Glob(filepath.Join(replayDirOf(*verifDir), *prop+"-*"))
		for _, f := range old {
			os.Remove(f)
		}
	}
	var solverMs int64
	for _, o := range obls {
		solverMs += o.Ms
		reps = append(reps, oblReport{o.Name, o.Kind, o.Pos, o.Desc, o.Status, o.Solver, o.Ms})
		if o.Expect == "sat" {
			if o.Status == "cover-failed" {
				fmt.Printf("BROKEN-CHECK: %s: the assumptions of %s are contradictory (vacuous proof)\n", o.Name, o.Fn)
				exit = 2
			}
			continue
		}
		nProof++
		switch o.Status {
		case "discharged":
			nDis++
			if len(samples) < 4 {
				samples = append(samples, map[string]string{"obligation": o.Name, "at": o.Pos, "states": o.Desc, "backend": o.Solver})
			}
		case "error":
			fmt.Printf("BROKEN-CHECK: %s: malformed solver query (engine defect): %s\n", o.Name, strings.SplitN(o.Model, "\n", 2)[0])
			exit = 2
		case "refuted", "undecided":
			if kf := isKnown(o); kf != nil {
				fmt.Printf("KNOWN-FINDING: property=%s %s: %s\n", *prop, o.Name, kf.What)
				knownHit = append(knownHit, o.Name)
				continue
			}
			nViol++
			path := writeReplay(*verifDir, *prop, o)
			rep := tryReplay(w, *verifDir, *prop, o, path)
			if rep {
				fmt.Printf("VIOLATION property=%s replay=%s\n", *prop, path)
			} else {
				fmt.Printf("VIOLATION property=%s replay=%s no-failing-input-found\n", *prop, path)
			}
			fmt.Printf("  failed obligation %s (%s) at %s: %s\n", o.Name, o.Status, o.Pos, o.Desc)
			if exit == 0 {
				exit = 1
			}
		}
	}
	// bounded stand-ins: real functions beyond the verifier's reach, explored exhaustively up to a stated bound.
	// They are reported separately and never counted as proved.
	var bounded []map[string]interface{}
	if *prop != "" && ((*only == "" && *fnOnly == "") || boundedOnly) {
		var br int
		bounded, br = runBounded(w, *verifDir, *prop, *tier, known)
		if br > exit {
			exit = br
		}
		for _, b := range bounded {
			if b["result"] == "violation" {
				nViol++
			}
		}
	}
	// A contract clause that can no longer be stated on this code (its function is gone, it names something that does
	// not exist any more, it no longer type-checks) generates no obligation: what it established on the unchanged tree
	// is not established here. That is reported - as undecided, with the reason, and as a violation without a failing
	// input - rather than passed over in silence. (Renamed locals and parameters are rebound first, see
	// rebindRenamedLocals.)
	for i, u := range undecided {
		fmt.Printf("UNDECIDED: %s\n", u)
		if *prop == "" {
			continue
		}
		nViol++
		name := fmt.Sprintf("contract-not-applicable-%d", i+1)
		path := filepath.Join(replayDirOf(*verifDir), *prop+"-"+name+".json")
		rec := map[string]interface{}{"property": *prop, "obligation": name, "kind": "contract clause that cannot be stated on this code",
			"status": "undecided", "what": u, "replay": "no failing input: the obligations this clause generated on the unchanged tree (all discharged there) cannot be generated on this code"}
		save := func() {
			rj, _ := json.MarshalIndent(rec, "", " ")
			os.WriteFile(path, rj, 0o644)
		}
		save()
		// the clause names its function: the scenario registered for that function (if any) is run against the real
		// code, so that a clause made unstatable by a change that also breaks the property is reported with the symptom
		reproduced := false
		if k := strings.Index(u, ": "); k > 0 && w.Funcs[u[:k]] != nil {
			reproduced = scenarioReplay(w, *verifDir, *prop, &Obligation{Name: name, Fn: u[:k]}, rec, save)
		}
		if reproduced {
			fmt.Printf("VIOLATION property=%s replay=%s\n", *prop, path)
		} else {
			fmt.Printf("VIOLATION property=%s replay=%s no-failing-input-found\n", *prop, path)
		}
		fmt.Printf("  failed obligation %s (undecided): %s\n", name, u)
		if exit == 0 {
			exit = 1
		}
	}
	if nProof == 0 && len(undecided) == 0 && !boundedOnly {
		fmt.Printf("BROKEN-CHECK: no obligations generated for %s\n", *prop)
		exit = 2
	}
	var corpus map[string]interface{}
	if *tier == "thorough" && *prop != "" && *only == "" && *fnOnly == "" && os.Getenv("LBVC_REPLAY_DIR") == "" && exit == 0 {
		corpus = mustFailCorpus(*verifDir, *prop)
	}
	wall := time.Since(t0).Seconds()
	if !*noEvidence && *prop != "" && *only == "" && *fnOnly == "" {
		level := "proof"
		if len(undecided) > 0 || nDis < nProof || len(bounded) > 0 {
			level = "other"
		}
		var tb []string
		for k := range trusted {
			tb = append(tb, k)
		}
		sort.Strings(tb)
		tb = append(tb, "SMT solvers z3 4.8.12, z3 5.1.0, cvc5 1.0.3 (first definite answer wins)",
			"go/ssa construction and go/types (golang.org/x/tools v0.29.0)",
			"the VC generator /verif/engine (lbvc) itself: its SSA-to-SMT semantics is not verified (mitigation: cover obligations, must-fail selftest corpus, replay)")
		if len(samples) == 0 {
			samples = append(samples, "no discharged obligation in this run")
		}
		ev := map[string]interface{}{
			"property_id": *prop, "tier": *tier, "seed": seed, "level": level, "wall_s": wall, "violations": nViol,
			"coverage": map[string]interface{}{
				"obligations": nProof, "discharged": nDis + len(knownHit)*0, "checker_cmd": "z3-new -T:N q.smt2 | z3 -T:N q.smt2 | cvc5 --tlimit=N --produce-models q.smt2 (raced per obligation)",
				"trusted_base": tb, "samples": samples, "functions_under_contract": frs, "obligation_results": reps,
				"known_findings_reported": knownHit, "undecided": undecided, "vacuous_paths": vacuous,
				"explanation": fmt.Sprintf("%d proof obligations generated from the SSA of %d functions of /repo's working tree against contracts in *_verif.go; %d discharged (unsat), %d listed known findings, %d violations; %d cover (vacuity) queries", nProof, len(frs), nDis, len(knownHit), nViol, len(obls)-nProof),
				"load_s": tLoad.Seconds(), "solve_s": tSolve.Seconds(), "solver_ms_total": solverMs,
				"bounded_stand_ins": bounded, "must_fail_corpus": corpus,
			},
			"assumptions": append([]string{
				"no goroutine interleaving semantics: each function body is verified sequentially; lock invariants stand in for other threads",
				"signed machine arithmetic (+,-,*) is treated as mathematical (no overflow); unsigned arithmetic and all conversions wrap exactly",
				"bodies of functions outside the module enter only through the models / assumed contracts listed in trusted_base",
				"termination is not proved",
				"calls through function values are resolved by value flow (function, closure, method value, result of a module function, stores into the struct field the value is read from; values handed out by library functions are library code), otherwise by signature; function-typed struct fields are written only by ordinary stores (no reflection / unsafe)",
			}, tb...),
		}
		if len(bounded) > 0 {
			cov := ev["coverage"].(map[string]interface{})
			evals, distinct := 0, 0
			var rules []string
			for _, b := range bounded {
				if n, ok := b["evaluations"].(int); ok {
					evals += n
				}
				if n, ok := b["distinct"].(int); ok {
					distinct += n
				}
				rules = append(rules, fmt.Sprintf("%v: %v", b["id"], b["bound"]))
				if smp, ok := b["sample"].(string); ok && smp != "" {
					cov["samples"] = append(cov["samples"].([]interface{}), map[string]interface{}{"bounded_stand_in": b["id"], "case": smp})
				}
			}
			cov["evaluations"] = evals
			cov["distinct_nontrivial"] = distinct
			cov["rule"] = "bounded stand-ins (NOT proofs), each an exhaustive enumeration on the real functions up to the stated bound; distinct = distinct reached states/cases as counted by the harness. " + strings.Join(rules, " | ")
			cov["explanation"] = cov["explanation"].(string) + fmt.Sprintf("; %d bounded stand-in(s) for functions beyond the verifier's reach, reported under bounded_stand_ins and not counted as proved", len(bounded))
		}
		data, _ := json.MarshalIndent(ev, "", " ")
		os.WriteFile(filepath.Join(*verifDir, "evidence", *prop+".json"), data, 0o644)
	}
	if !*keep {
		os.RemoveAll(workDir)
		os.Remove(filepath.Join(*verifDir, ".work"))
	}
	fmt.Printf("property=%s tier=%s functions=%d obligations=%d discharged=%d known=%d violations=%d undecided=%d load=%.1fs solve=%.1fs wall=%.1fs\n",
		*prop, *tier, len(frs), nProof, nDis, len(knownHit), nViol, len(undecided), tLoad.Seconds(), tSolve.Seconds(), wall)
	if *verbose {
		for _, o := range obls {
			fmt.Printf("  %-12s %-70s %-10s %5dms  %s\n", o.Status, o.Name, o.Solver, o.Ms, o.Pos)
		}
	}
	return exit
}

// runBounded runs the bounded stand-ins registered for a property in bounded/bounded.json.
func runBounded(w *World, verifDir, prop, tier string, known []finding) ([]map[string]interface{}, int) {
	data, err := os.ReadFile(filepath.Join(verifDir, "bounded", "bounded.json"))
	if err != nil {
		return nil, 0
	}
	var bs []struct {
		ID         string            `json:"id"`
		Property   string            `json:"property"`
		Package    string            `json:"package"`
		File       string            `json:"file"`
		Test       string            `json:"test"`
		StandsFor  string            `json:"stands_in_for"`
		Bound      map[string]string `json:"bound"` // per tier
		Timeout    map[string]int    `json:"timeout_s"`
	}
	if err := json.Unmarshal(data, &bs); err != nil {
		fmt.Printf("BROKEN-CHECK: bounded/bounded.json: %v\n", err)
		return nil, 2
	}
	var out []map[string]interface{}
	exit := 0
	for _, b := range bs {
		if b.Property != prop {
			continue
		}
		src, err := os.ReadFile(filepath.Join(verifDir, "bounded", b.File))
		if err != nil {
			fmt.Printf("BROKEN-CHECK: bounded stand-in %s: %v\n", b.ID, err)
			exit = 2
			continue
		}
		to := b.Timeout[tier]
		if to == 0 {
			to = 300
		}
		t0 := time.Now()
		// known findings of a stand-in are listed per CASE (obligation=bounded:<id>@<case key>): the harness is told the
		// keys, reports such a case as LBVC-BOUNDED-KNOWN and goes on, so that any other failing case is still a violation
		knownCases := map[string]finding{}
		var keys []string
		for _, k := range known {
			if k.Prop == prop && strings.HasPrefix(k.Obl, "bounded:"+b.ID+"@") {
				key := strings.TrimPrefix(k.Obl, "bounded:"+b.ID+"@")
				knownCases[key] = k
				keys = append(keys, key)
			}
		}
		o, failed := runOverlayTest(w.Repo, filepath.Join(w.Repo, b.Package), "zz_lbvc_bounded_test.go", string(src), b.Test, to, "LBVC_TIER="+tier, "LBVC_KNOWN_CASES="+strings.Join(keys, ";"))
		rec := map[string]interface{}{"id": b.ID, "stands_in_for": b.StandsFor, "bound": b.Bound[tier], "label": "bounded (not a proof)", "wall_s": time.Since(t0).Seconds()}
		seenKnown := map[string]bool{}
		for _, line := range strings.Split(o, "\n") {
			if i := strings.Index(line, "LBVC-BOUNDED-KNOWN "); i >= 0 {
				key := strings.TrimSpace(line[i+len("LBVC-BOUNDED-KNOWN "):])
				if j := strings.Index(key, ":"); j >= 0 {
					key = key[:j]
				}
				if k, ok := knownCases[key]; ok && !seenKnown[key] {
					seenKnown[key] = true
					fmt.Printf("KNOWN-FINDING: property=%s bounded:%s@%s: %s\n", prop, b.ID, key, k.What)
					kf, _ := rec["known_findings_reported"].([]string)
					rec["known_findings_reported"] = append(kf, "bounded:"+b.ID+"@"+key)
				}
			}
			if i := strings.Index(line, "LBVC-BOUNDED-STATS "); i >= 0 {
				for _, f := range strings.Fields(line[i+len("LBVC-BOUNDED-STATS "):]) {
					kv := strings.SplitN(f, "=", 2)
					if len(kv) == 2 {
						if n, err := strconv.Atoi(kv[1]); err == nil {
							rec[kv[0]] = n
						} else {
							rec[kv[0]] = kv[1]
						}
					}
				}
			}
			if i := strings.Index(line, "LBVC-BOUNDED-SAMPLE "); i >= 0 {
				rec["sample"] = line[i+len("LBVC-BOUNDED-SAMPLE "):]
			}
		}
		switch {
		case !failed && strings.Contains(o, "LBVC-BOUNDED-STATS"):
			rec["result"] = "held"
		case failed && strings.Contains(o, "LBVC-BOUNDED-VIOLATION"):
			what := ""
			for _, line := range strings.Split(o, "\n") {
				if i := strings.Index(line, "LBVC-BOUNDED-VIOLATION"); i >= 0 {
					what = strings.TrimSpace(line[i:])
					break
				}
			}
			name := "bounded:" + b.ID
			isK := false
			for _, k := range known {
				if k.Obl == name && k.Prop == prop {
					fmt.Printf("KNOWN-FINDING: property=%s %s: %s\n", prop, name, k.What)
					isK = true
				}
			}
			if isK {
				rec["result"] = "known-finding"
				break
			}
			rec["result"] = "violation"
			rec["what"] = what
			os.MkdirAll(replayDirOf(verifDir), 0o755)
			path := filepath.Join(replayDirOf(verifDir), prop+"-bounded-"+b.ID+".json")
			rj, _ := json.MarshalIndent(map[string]interface{}{"property": prop, "obligation": name, "kind": "bounded stand-in", "bound": b.Bound[tier],
				"replay": "the failing case was produced by running the real functions (go test -overlay " + b.File + " -run " + b.Test + ")", "what": what, "output": tail(o, 8000)}, "", " ")
			os.WriteFile(path, rj, 0o644)
			fmt.Printf("VIOLATION property=%s replay=%s\n", prop, path)
			fmt.Printf("  failed bounded stand-in %s: %s\n", b.ID, what)
			if exit == 0 {
				exit = 1
			}
		default:
			rec["result"] = "broken"
			fmt.Printf("BROKEN-CHECK: bounded stand-in %s did not run to completion: %s\n", b.ID, tail(o, 600))
			exit = 2
		}
		out = append(out, rec)
	}
	return out, exit
}

// replayDirOf: where replay records go; a child run on a mutated copy (LBVC_REPLAY_DIR) keeps its records apart.
func replayDirOf(verifDir string) string {
	if d := os.Getenv("LBVC_REPLAY_DIR"); d != "" {
		return d
	}
	return filepath.Join(verifDir, "evidence", "replay")
}

// mustFailCorpus (thorough tier): every own mutant and every seeded change of the property is applied to a scratch
// copy of the repository and must make this check report a VIOLATION. The result is evidence about the check's
// strength; it does not affect the exit status (the unchanged tree is what is being judged).
func mustFailCorpus(verifDir, prop string) map[string]interface{} {
	var patches []string
	m1, _ := filepath.Glob(filepath.Join(verifDir, "selftest", "mutants", prop+"-*.patch"))
	m2, _ := filepath.Glob(filepath.Join(verifDir, "seeded", prop+"-*", "patch.diff"))
	patches = append(append(patches, m1...), m2...)
	if len(patches) == 0 {
		return nil
	}
	type res struct {
		name   string
		caught bool
		note   string
	}
	out := make([]res, len(patches))
	sem := make(chan struct{}, 4)
	var wg sync.WaitGroup
	for i, p := range patches {
		wg.Add(1)
		go func(i int, p string) {
			defer wg.Done()
			sem <- struct{}{}
			defer func() { <-sem }()
			name := strings.TrimSuffix(filepath.Base(p), ".patch")
			if name == "patch.diff" {
				name = filepath.Base(filepath.Dir(p))
			}
			tmp, _ := os.MkdirTemp("", "lbvc-child-replay-")
			defer os.RemoveAll(tmp)
			cmd := exec.Command(filepath.Join(verifDir, "tools", "runmutant.sh"), p, prop)
			cmd.Env = append(os.Environ(), "LBVC_REPLAY_DIR="+tmp)
			b, _ := cmd.CombinedOutput()
			o := string(b)
			out[i] = res{name: name, caught: strings.Contains(o, "VIOLATION property="+prop)}
			if !out[i].caught {
				out[i].note = tail(o, 300)
			}
		}(i, p)
	}
	wg.Wait()
	caught := 0
	var missed []string
	for _, r := range out {
		if r.caught {
			caught++
		} else {
			missed = append(missed, r.name)
			fmt.Printf("WEAK-CHECK: property=%s the change %s is not caught by this check\n", prop, r.name)
		}
	}
	fmt.Printf("must-fail corpus: %d of %d property-breaking changes caught\n", caught, len(out))
	return map[string]interface{}{"total": len(out), "caught": caught, "missed": missed,
		"what": "own mutants (selftest/mutants) and independently seeded changes (seeded/) applied one at a time to a scratch copy; caught = this check reports a VIOLATION"}
}

func writeReplay(verifDir, prop string, o *Obligation) string {
	name := strings.NewReplacer("/", "_", "(", "", ")", "", "*", "", "#", "-", "@", "-", "$", "-").Replace(o.Name)
	path := filepath.Join(replayDirOf(verifDir), prop+"-"+name+".json")
	q, _ := os.ReadFile(o.Query)
	out := o.Model
	if len(out) > 20000 {
		out = out[:20000] + "\n...(truncated)"
	}
	rec := map[string]interface{}{"property": prop, "obligation": o.Name, "kind": o.Kind, "function": o.Fn, "position": o.Pos,
		"what": o.Desc, "status": o.Status, "solver": o.Solver, "solver_output": out, "smt2_bytes": len(q)}
	data, _ := json.MarshalIndent(rec, "", " ")
	os.WriteFile(path, data, 0o644)
	os.WriteFile(strings.TrimSuffix(path, ".json")+".smt2", q, 0o644)
	return path
}

// addAxioms adds the package's axioms to the context.
func (t *Tr) addAxioms() {
	pkg := ""
	if t.ct != nil {
		pkg = t.ct.Pkg
	}
	t.entrySt = newState()
	t.addAxiomsFor(pkg)
}

func (t *Tr) addAxiomsFor(pkg string) {
	for _, ax := range t.sp.Axioms {
		if ax.Name != pkg && ax.Name != "all" {
			continue
		}
		st := newState()
		env := &Env{t: t, c: t.c, vars: map[string]*SVal{}, locs: map[string]*Loc{}, st: st, old: st, pkg: t.pkgByName(pkg)}
		g, err := env.boolExpr(ax.E)
		if err != nil {
			t.unsup("axiom (%s:%d): %v", ax.File, ax.Line, err)
			continue
		}
		t.c.assert(g)
		t.trusted[fmt.Sprintf("axiom %s:%d: %s", ax.File, ax.Line, ax.Text)] = true
	}
}

var _ *ssa.Function

// tryReplay: replay adapters live in replay.go; returns true if the violation was reproduced on the real code.

// initSlice: the instructions of a package initialiser that the declared package-level
// tables depend on (stores to those globals and the backward closure of the stored values).
func initSlice(fn *ssa.Function, sp *Specs, pkg string) map[ssa.Instruction]bool {
	want := map[string]bool{}
	for _, gi := range sp.GlobalInvs {
		if gi.Pkg == pkg {
			want[gi.Global] = true
		}
	}
	keep := map[ssa.Instruction]bool{}
	var addVal func(v ssa.Value)
	addVal = func(v ssa.Value) {
		in, ok := v.(ssa.Instruction)
		if !ok || keep[in] {
			return
		}
		keep[in] = true
		var ops []*ssa.Value
		for _, op := range in.Operands(ops) {
			if op != nil && *op != nil {
				addVal(*op)
			}
		}
		// stores into memory this value addresses (array literals)
		if refs := v.Referrers(); refs != nil {
			for _, r := range *refs {
				switch x := r.(type) {
				case *ssa.IndexAddr:
					if x.X == v {
						addVal(x)
					}
				case *ssa.Store:
					if x.Addr == v {
						keep[x] = true
						addVal(x.Val)
					}
				}
			}
		}
	}
	for _, b := range fn.Blocks {
		for _, in := range b.Instrs {
			if st, ok := in.(*ssa.Store); ok {
				if g, ok := st.Addr.(*ssa.Global); ok && want[g.Name()] {
					keep[st] = true
					addVal(st.Val)
				}
			}
		}
	}
	return keep
}

// structuralObligation decides a callers / writers / jsonfields item directly.
func structuralObligation(w *World, ms *ModSets, st *Structural) *Obligation {
	o := &Obligation{Name: st.Pkg + "." + st.Kind + "." + st.Target, Kind: st.Kind, Fn: st.Pkg + "." + st.Kind + "." + st.Target,
		Pos: fmt.Sprintf("%s:%d", st.File, st.Line), Expect: "unsat", Solver: "go/types+go/ssa", Status: "discharged"}
	allowed := map[string]bool{}
	for _, a := range st.Allowed {
		allowed[qualify(st.Pkg, a)] = true
		allowed[a] = true
	}
	var bad []string
	sites := 0
	switch st.Kind {
	case "callers":
		o.Desc = "every call of " + st.Target + " is made from: " + strings.Join(st.Allowed, ", ")
		for _, fn := range w.AllFn {
			key := funcKey(fn)
			// closures count as their enclosing function
			top := fn
			for top.Parent() != nil {
				top = top.Parent()
			}
			tkey := funcKey(top)
			for _, b := range fn.Blocks {
				for _, in := range b.Instrs {
					// address taken (function value) counts as a potential call
					var ops []*ssa.Value
					for _, op := range in.Operands(ops) {
						if op == nil || *op == nil {
							continue
						}
						f, ok := (*op).(*ssa.Function)
						if !ok {
							continue
						}
						if matchCallee(st, f, nil) {
							sites++
							if !allowed[key] && !allowed[tkey] {
								bad = append(bad, key+" ("+w.pos(in.Pos())+")")
							}
						}
					}
					if ci, ok := in.(ssa.CallInstruction); ok && ci.Common().IsInvoke() {
						if matchCallee(st, nil, ci.Common()) {
							sites++
							if !allowed[key] && !allowed[tkey] {
								bad = append(bad, key+" ("+w.pos(in.Pos())+")")
							}
						}
					}
				}
			}
		}
		if sites == 0 && len(st.Allowed) > 0 {
			// vacuity guard: a whitelist for something that is never called refers to nothing (renamed? misspelt?)
			o.Status = "error"
			o.Model = "no call site of " + st.Target + " found: the callers obligation is vacuous"
			return o
		}
	case "synchronous":
		// every call of the target happens on the calling goroutine of its (transitive) callers: no call site sits in a
		// closure that is started with `go`, handed to a startGoroutine* helper or to time.AfterFunc. The list after the
		// colon names closures that are allowed to be asynchronous (none, normally).
		o.Desc = "every call of " + st.Target + " is made synchronously (not from a spawned goroutine or timer)"
		for _, fn := range w.AllFn {
			calls := false
			for _, b := range fn.Blocks {
				for _, in := range b.Instrs {
					if ci, ok := in.(ssa.CallInstruction); ok {
						if f, ok := ci.Common().Value.(*ssa.Function); ok && matchCallee(st, f, nil) {
							calls = true
							sites++
							// the call site itself is a go statement: `go target(...)` (no closure involved)
							if g, isGo := in.(*ssa.Go); isGo && !allowed[funcKey(fn)] {
								bad = append(bad, funcKey(fn)+" (started with go at "+w.pos(g.Pos())+")")
							}
						}
					}
				}
			}
			if !calls || fn.Parent() == nil || allowed[funcKey(fn)] {
				continue
			}
			// fn is a closure: how is it used by its parent?
			for _, b := range fn.Parent().Blocks {
				for _, in := range b.Instrs {
					mc, ok := in.(*ssa.MakeClosure)
					if !ok || mc.Fn != fn || mc.Referrers() == nil {
						continue
					}
					for _, r := range *mc.Referrers() {
						switch u := r.(type) {
						case *ssa.Go:
							bad = append(bad, funcKey(fn)+" (started with go at "+w.pos(u.Pos())+")")
						case ssa.CallInstruction:
							name := ""
							if f, ok := u.Common().Value.(*ssa.Function); ok {
								name = f.String()
							} else if u.Common().IsInvoke() {
								name = u.Common().Method.Name()
							}
							if strings.Contains(name, "startGoroutine") || strings.Contains(name, "AfterFunc") {
								bad = append(bad, funcKey(fn)+" (handed to "+name+" at "+w.pos(u.Pos())+")")
							}
						}
					}
				}
			}
		}
		if sites == 0 {
			o.Status = "error"
			o.Model = "no call site of " + st.Target + " found: the obligation is vacuous"
			return o
		}
	case "writers":
		o.Desc = "every store to " + st.Target + " is made from: " + strings.Join(st.Allowed, ", ")
		comp := "F:" + st.Pkg + "." + st.Target
		if strings.Contains(st.Target, ":") {
			comp = st.Target
		}
		for _, fn := range w.AllFn {
			if ms.direct[fn][comp] {
				top := fn
				for top.Parent() != nil {
					top = top.Parent()
				}
				if !allowed[funcKey(fn)] && !allowed[funcKey(top)] {
					bad = append(bad, funcKey(fn))
				}
			}
		}
	case "callees":
		// every function of package <target> calls, outside the module, only functions of the listed packages / names
		// (the target is a package name, or one function - then the obligation is about that function and its closures)
		o.Desc = "package " + st.Target + " calls outside the module only: " + strings.Join(st.Allowed, ", ")
		fnTarget := strings.ContainsAny(st.Target, ".(")
		if fnTarget {
			o.Desc = st.Target + " calls outside the module only: " + strings.Join(st.Allowed, ", ")
		}
		for _, fn := range w.AllFn {
			top := fn
			for top.Parent() != nil {
				top = top.Parent()
			}
			if fnTarget {
				if funcKey(top) != qualify(st.Pkg, st.Target) {
					continue
				}
			} else if top.Pkg == nil || top.Pkg.Pkg.Name() != st.Target {
				continue
			}
			sites++
			for _, b := range fn.Blocks {
				for _, in := range b.Instrs {
					ci, ok := in.(ssa.CallInstruction)
					if !ok {
						continue
					}
					cc := ci.Common()
					name, pkgp := "", calleePkgPath(cc)
					if f, ok := cc.Value.(*ssa.Function); ok {
						if inModule(f) {
							continue
						}
						name = f.String()
					} else if cc.IsInvoke() {
						if cc.Method.Pkg() != nil && isModPath(cc.Method.Pkg().Path()) {
							continue
						}
						name = pkgp + "." + cc.Method.Name()
					} else {
						continue
					}
					okc := strings.HasSuffix(name, ".init") // package initialisers
					for _, a := range st.Allowed {
						if a == pkgp || a == name || strings.HasSuffix(a, "*") && strings.HasPrefix(name, strings.TrimSuffix(a, "*")) {
							okc = true
						}
					}
					if !okc {
						bad = append(bad, funcKey(fn)+" calls "+name)
					}
				}
			}
		}
		if sites == 0 {
			// vacuity guard: the target names no function of the module (renamed? misspelt?)
			o.Status = "error"
			o.Model = "no function matches " + st.Target + ": the callees obligation is vacuous"
			return o
		}
	case "fieldtypes":
		// the fields of struct <target> have exactly the listed types (no handle on anything else)
		o.Desc = "the fields of " + st.Target + " have only the types: " + strings.Join(st.Allowed, ", ")
		sp := w.SPkgs[st.Pkg]
		found := false
		if sp != nil {
			if tn, ok := sp.Members[st.Target].(*ssa.Type); ok {
				if su, ok := tn.Type().Underlying().(*types.Struct); ok {
					found = true
					for i := 0; i < su.NumFields(); i++ {
						ts := types.TypeString(su.Field(i).Type(), func(p *types.Package) string { return p.Name() })
						if !allowed[ts] {
							bad = append(bad, "field "+su.Field(i).Name()+" of type "+ts)
						}
					}
				}
			}
		}
		if !found {
			bad = append(bad, "type not found")
		}
	case "jsonfields":
		o.Desc = "the JSON field set of " + st.Target + " is exactly: " + strings.Join(st.Allowed, ", ")
		sp := w.SPkgs[st.Pkg]
		var got []string
		if sp != nil {
			if tn, ok := sp.Members[st.Target].(*ssa.Type); ok {
				got = jsonFields(tn.Type(), "")
			}
		}
		gs := map[string]bool{}
		for _, g := range got {
			gs[g] = true
			if !allowed[g] {
				bad = append(bad, "unexpected field "+g)
			}
		}
		for _, a := range st.Allowed {
			if !gs[a] {
				bad = append(bad, "missing field "+a)
			}
		}
		if len(got) == 0 {
			bad = append(bad, "type not found")
		}
	}
	if len(bad) > 0 {
		sort.Strings(bad)
		o.Status = "refuted"
		o.Model = strings.Join(bad, "\n")
		o.Desc += " -- violated by: " + strings.Join(bad, "; ")
	}
	return o
}

func matchCallee(st *Structural, f *ssa.Function, cc *ssa.CallCommon) bool {
	t := st.Target
	if strings.HasPrefix(t, "lib:") {
		pkg := t[4:]
		if f != nil {
			if f.Pkg != nil && f.Pkg.Pkg.Path() == pkg {
				return true
			}
			if f.Signature.Recv() != nil {
				if n, ok := deref(f.Signature.Recv().Type()).(*types.Named); ok && n.Obj().Pkg() != nil && n.Obj().Pkg().Path() == pkg {
					return true
				}
			}
			return false
		}
		return cc.Method.Pkg() != nil && cc.Method.Pkg().Path() == pkg
	}
	if f == nil {
		return false
	}
	// a method VALUE (c.m handed on as a function) or method expression reaches the method through a synthetic wrapper
	// ("(*T).m$bound", "(*T).m$thunk"): the wrapper stands for the method it wraps
	if f.Synthetic != "" && (strings.HasSuffix(f.Name(), "$bound") || strings.HasSuffix(f.Name(), "$thunk")) {
		if obj, ok := f.Object().(*types.Func); ok && f.Prog != nil {
			if m := f.Prog.FuncValue(obj); m != nil {
				f = m
			}
		}
	}
	if strings.HasPrefix(t, "lib.") {
		// one library function or method, named as go/ssa prints it: lib.(*path/to/pkg.T).M or lib.path/to/pkg.F
		return !inModule(f) && "lib."+f.String() == t
	}
	return inModule(f) && funcKey(f) == qualify(st.Pkg, t)
}

// jsonFields lists the JSON names of a struct type, nested structs as a.b.
func jsonFields(t types.Type, prefix string) []string {
	if p, ok := t.Underlying().(*types.Pointer); ok {
		t = p.Elem()
	}
	st, ok := t.Underlying().(*types.Struct)
	if !ok {
		return nil
	}
	var out []string
	for i := 0; i < st.NumFields(); i++ {
		f := st.Field(i)
		if !f.Exported() {
			continue
		}
		name := f.Name()
		tag := reflect.StructTag(st.Tag(i)).Get("json")
		if tag == "-" {
			continue
		}
		if j := strings.Index(tag, ","); j >= 0 {
			tag = tag[:j]
		}
		if tag != "" {
			name = tag
		}
		ft := f.Type()
		if p, ok := ft.Underlying().(*types.Pointer); ok {
			ft = p.Elem()
		}
		if _, isStruct := ft.Underlying().(*types.Struct); isStruct && !strings.HasPrefix(ft.String(), "time.") {
			out = append(out, jsonFields(ft, prefix+name+".")...)
			continue
		}
		out = append(out, prefix+name)
	}
	return out
}


// implicitSafetyTargets: the module functions without a contract that are called (statically, transitively, depth <= 3)
// from a function whose contract claims `safety` for this property. Each gets a synthesised contract "safety, no
// precondition" for its own body: a helper a decoder calls must not panic for any argument either. (Found missing by a
// seventh-round seed: a new name-table helper with an off-by-one bound, called from checkEnvelope.)
func implicitSafetyTargets(w *World, sp *Specs, keys []string, prop string) []string {
	if sp.Implicit == nil {
		sp.Implicit = map[string]*Contract{}
	}
	var out []string
	type item struct {
		key   string
		depth int
	}
	var work []item
	for _, k := range keys {
		ct := sp.Contracts[k]
		if ct == nil || !ct.Safety || !(len(ct.SafetyFor) == 0 || contains(ct.SafetyFor, prop)) {
			continue
		}
		work = append(work, item{k, 0})
	}
	seen := map[string]bool{}
	for len(work) > 0 {
		it := work[0]
		work = work[1:]
		fn := w.Funcs[it.key]
		if fn == nil || it.depth >= 3 {
			continue
		}
		for _, b := range fn.Blocks {
			for _, in := range b.Instrs {
				ci, ok := in.(ssa.CallInstruction)
				if !ok {
					continue
				}
				if _, isGo := in.(*ssa.Go); isGo {
					continue
				}
				callee := ci.Common().StaticCallee()
				if callee == nil || !inModule(callee) || len(callee.Blocks) == 0 || callee.Parent() != nil {
					continue
				}
				ck := funcKey(callee)
				if seen[ck] || sp.Contracts[ck] != nil || w.Funcs[ck] == nil {
					continue
				}
				// only helpers whose inputs carry no representation invariant: every parameter (and receiver) is a
				// scalar, a string or a slice of scalars, and the body has no loop. For anything else a sweep without
				// preconditions fails for want of a contract, not because of a defect (nil receivers, unstated
				// invariants of objects), and would be a false alarm.
				if !scalarInputsOnly(callee) || hasLoop(callee) {
					continue
				}
				seen[ck] = true
				pkg := ""
				if callee.Pkg != nil {
					pkg = callee.Pkg.Pkg.Name()
				}
				sp.Implicit[ck] = &Contract{Key: ck, Pkg: pkg, Serves: []string{prop}, Safety: true, File: "(implicit: called from a function under a safety contract)"}
				out = append(out, ck)
				work = append(work, item{ck, it.depth + 1})
			}
		}
	}
	return out
}


func scalarInputsOnly(fn *ssa.Function) bool {
	ok := func(t types.Type) bool {
		switch u := t.Underlying().(type) {
		case *types.Basic:
			return u.Kind() != types.UnsafePointer
		case *types.Slice:
			_, b := u.Elem().Underlying().(*types.Basic)
			return b
		}
		return false
	}
	for _, p := range fn.Params {
		if !ok(p.Type()) {
			return false
		}
	}
	return len(fn.FreeVars) == 0
}

func hasLoop(fn *ssa.Function) bool {
	idx := map[*ssa.BasicBlock]int{}
	for i, b := range fn.Blocks {
		idx[b] = i
	}
	for _, b := range fn.Blocks {
		for _, s := range b.Succs {
			if s.Dominates(b) {
				return true
			}
		}
	}
	return false
}
