package main

import (
	"fmt"
	"go/ast"
	"go/token"
	"go/types"
	"os"
	"sort"
	"strings"

	"golang.org/x/tools/go/packages"
	"golang.org/x/tools/go/ssa"
	"golang.org/x/tools/go/ssa/ssautil"
)

const modPath = "github.com/liftbridge-io/liftbridge"

// World is everything loaded from the repository working tree.
type World struct {
	Repo  string
	Fset  *token.FileSet
	Pkgs  []*packages.Package
	Prog  *ssa.Program
	SPkgs map[string]*ssa.Package // by short name (commitlog, server, protocol, ...)
	Funcs map[string]*ssa.Function // key: "<pkgshort>.<name>"  e.g. commitlog.(*segment).write, protocol.checkEnvelope, server.min$1
	AllFn []*ssa.Function
	Files map[*types.Package][]*ast.File
	Alias map[*types.Package]map[string]*types.Package // import alias (or package name) -> package, per module package
}

var loadPatterns = []string{"./server", "./server/commitlog", "./server/protocol", "./server/encryption", "./server/telemetry"}

func loadWorld(repo string) (*World, error) {
	cfg := &packages.Config{
		Mode:       packages.LoadAllSyntax,
		Dir:        repo,
		BuildFlags: []string{"-tags=verif"},
		Tests:      false,
		Env:        os.Environ(),
	}
	pkgs, err := packages.Load(cfg, loadPatterns...)
	if err != nil {
		return nil, err
	}
	nerr := 0
	packages.Visit(pkgs, nil, func(p *packages.Package) {
		if isModPath(p.PkgPath) {
			for _, e := range p.Errors {
				fmt.Fprintln(os.Stderr, "load error:", e)
				nerr++
			}
		}
	})
	if nerr > 0 {
		return nil, fmt.Errorf("%d load errors in module packages", nerr)
	}
	prog, spkgs := ssautil.AllPackages(pkgs, ssa.InstantiateGenerics|ssa.GlobalDebug)
	prog.Build()
	w := &World{Repo: repo, Pkgs: pkgs, Prog: prog, SPkgs: map[string]*ssa.Package{}, Funcs: map[string]*ssa.Function{}}
	if len(pkgs) > 0 {
		w.Fset = pkgs[0].Fset
	}
	w.Files = map[*types.Package][]*ast.File{}
	w.Alias = map[*types.Package]map[string]*types.Package{}
	packages.Visit(pkgs, nil, func(p *packages.Package) {
		if !isModPath(p.PkgPath) || p.Types == nil {
			return
		}
		w.Files[p.Types] = p.Syntax
		al := map[string]*types.Package{}
		for _, f := range p.Syntax {
			for _, im := range f.Imports {
				path := strings.Trim(im.Path.Value, "\"")
				ip := p.Imports[path]
				if ip == nil || ip.Types == nil {
					continue
				}
				name := ip.Types.Name()
				if im.Name != nil {
					name = im.Name.Name
				}
				al[name] = ip.Types
			}
		}
		w.Alias[p.Types] = al
	})
	for _, sp := range spkgs {
		if sp == nil {
			continue
		}
		if isModPath(sp.Pkg.Path()) {
			w.SPkgs[sp.Pkg.Name()] = sp
		}
	}
	for fn := range ssautil.AllFunctions(prog) {
		if fn.Pkg == nil || !isModPath(fn.Pkg.Pkg.Path()) {
			continue
		}
		if fn.Synthetic != "" && fn.Parent() == nil && !strings.HasPrefix(fn.Synthetic, "package init") {
			// wrappers, thunks, bound methods: not source functions
			if !strings.Contains(fn.Synthetic, "instance of") {
				continue
			}
		}
		k := funcKey(fn)
		w.Funcs[k] = fn
		w.AllFn = append(w.AllFn, fn)
	}
	sort.Slice(w.AllFn, func(i, j int) bool { return funcKey(w.AllFn[i]) < funcKey(w.AllFn[j]) })
	return w, nil
}

// funcKey gives the short stable name of a module function.
func funcKey(fn *ssa.Function) string {
	pk := "?"
	if fn.Pkg != nil {
		pk = fn.Pkg.Pkg.Name()
	} else if fn.Parent() != nil && fn.Parent().Pkg != nil {
		pk = fn.Parent().Pkg.Pkg.Name()
	}
	if fn.Parent() != nil {
		// closure: parentkey$N  (ssa names closures parent$N)
		pkx := funcKey(fn.Parent())
		nm := fn.Name()
		if i := strings.LastIndex(nm, "$"); i >= 0 {
			return pkx + nm[i:]
		}
		return pkx + "$" + nm
	}
	if recv := fn.Signature.Recv(); recv != nil {
		t := recv.Type()
		ptr := ""
		if p, ok := t.(*types.Pointer); ok {
			t = p.Elem()
			ptr = "*"
		}
		tn := "?"
		if n, ok := t.(*types.Named); ok {
			tn = n.Obj().Name()
		}
		if ptr != "" {
			return fmt.Sprintf("%s.(*%s).%s", pk, tn, fn.Name())
		}
		return fmt.Sprintf("%s.(%s).%s", pk, tn, fn.Name())
	}
	return pk + "." + fn.Name()
}

func (w *World) pos(p token.Pos) string {
	if !p.IsValid() {
		return "-"
	}
	ps := w.Fset.Position(p)
	f := ps.Filename
	if strings.HasPrefix(f, w.Repo) {
		f = strings.TrimPrefix(f[len(w.Repo):], "/")
	}
	return fmt.Sprintf("%s:%d", f, ps.Line)
}

// isModPath: the package path belongs to the module under verification (path-boundary aware:
// github.com/liftbridge-io/liftbridge-api/... is a different module).
func isModPath(p string) bool {
	return p == modPath || strings.HasPrefix(p, modPath+"/")
}
