package main

import (
	"fmt"
	"math/big"
	"strconv"
	"strings"
)

// ---------------------------------------------------------------------------
// Specification expression AST

type Expr interface{}

type (
	EIdent struct{ Name string }
	EInt   struct{ V *big.Int }
	EStr   struct{ V string }
	EBool  struct{ V bool }
	ENil   struct{}
	EUnary struct {
		Op string
		X  Expr
	}
	EBinary struct {
		Op   string
		X, Y Expr
	}
	ECond struct{ C, A, B Expr }
	ESel  struct {
		X    Expr
		Name string
	}
	EIndex struct{ X, I Expr }
	ESlice struct{ X, Lo, Hi Expr }
	ECall  struct {
		Fun  Expr
		Args []Expr
	}
	EQuant struct {
		Forall   bool
		Vars     []QVar
		Body     Expr
		Triggers []Expr // explicit  {t1, t2}  after the variables: one multi-pattern
	}
	ELet struct {
		Name string
		Val  Expr
		Body Expr
	}
)

type QVar struct {
	Name string
	Type string // Go type text; "" = int
}

type tok struct {
	k string // id, int, str, op, eof
	s string
	n *big.Int
}

func lexSpec(src string) ([]tok, error) {
	var out []tok
	i := 0
	ops := []string{"<==>", "==>", "::", "<<", ">>", "&&", "||", "==", "!=", "<=", ">=", "&^",
		"+", "-", "*", "/", "%", "&", "|", "^", "<", ">", "!", "(", ")", "[", "]", "{", "}", ",", ".", ":", "?", "="}
	for i < len(src) {
		c := src[i]
		switch {
		case c == ' ' || c == '\t' || c == '\n' || c == '\r':
			i++
		case c == '/' && i+1 < len(src) && src[i+1] == '/':
			// comment to end of line
			for i < len(src) && src[i] != '\n' {
				i++
			}
		case c >= '0' && c <= '9':
			j := i
			for j < len(src) && (isAlnum(src[j]) || src[j] == '_') {
				j++
			}
			txt := strings.ReplaceAll(src[i:j], "_", "")
			n := new(big.Int)
			if _, ok := n.SetString(txt, 0); !ok {
				return nil, fmt.Errorf("bad number %q", txt)
			}
			out = append(out, tok{k: "int", s: txt, n: n})
			i = j
		case isAlpha(c):
			j := i
			for j < len(src) && (isAlnum(src[j]) || src[j] == '_' || src[j] == '$') {
				j++
			}
			out = append(out, tok{k: "id", s: src[i:j]})
			i = j
		case c == '"':
			j := i + 1
			for j < len(src) && src[j] != '"' {
				if src[j] == '\\' {
					j++
				}
				j++
			}
			if j >= len(src) {
				return nil, fmt.Errorf("unterminated string")
			}
			s, err := strconv.Unquote(src[i : j+1])
			if err != nil {
				return nil, err
			}
			out = append(out, tok{k: "str", s: s})
			i = j + 1
		case c == '\'':
			j := i + 1
			for j < len(src) && src[j] != '\'' {
				if src[j] == '\\' {
					j++
				}
				j++
			}
			r, _, _, err := strconv.UnquoteChar(src[i+1:j], '\'')
			if err != nil {
				return nil, err
			}
			out = append(out, tok{k: "int", s: src[i : j+1], n: big.NewInt(int64(r))})
			i = j + 1
		default:
			matched := false
			for _, op := range ops {
				if strings.HasPrefix(src[i:], op) {
					out = append(out, tok{k: "op", s: op})
					i += len(op)
					matched = true
					break
				}
			}
			if !matched {
				return nil, fmt.Errorf("unexpected character %q in %q", c, src)
			}
		}
	}
	out = append(out, tok{k: "eof"})
	return out, nil
}

func isAlpha(c byte) bool { return c == '_' || (c >= 'a' && c <= 'z') || (c >= 'A' && c <= 'Z') }
func isAlnum(c byte) bool { return isAlpha(c) || (c >= '0' && c <= '9') }

type sparser struct {
	toks []tok
	p    int
	src  string
	noIn int
}

func parseSpecExpr(src string) (e Expr, err error) {
	toks, err := lexSpec(src)
	if err != nil {
		return nil, err
	}
	ps := &sparser{toks: toks, src: src}
	defer func() {
		if r := recover(); r != nil {
			if pe, ok := r.(parseErr); ok {
				err = fmt.Errorf("%s (in %q)", string(pe), src)
				return
			}
			panic(r)
		}
	}()
	e = ps.expr()
	if ps.peek().k != "eof" {
		ps.fail("unexpected %q", ps.peek().s)
	}
	return e, nil
}

type parseErr string

func (p *sparser) fail(f string, a ...interface{}) { panic(parseErr(fmt.Sprintf(f, a...))) }
func (p *sparser) peek() tok                      { return p.toks[p.p] }
func (p *sparser) next() tok                      { t := p.toks[p.p]; p.p++; return t }
func (p *sparser) isOp(s string) bool             { t := p.peek(); return t.k == "op" && t.s == s }
func (p *sparser) isId(s string) bool             { t := p.peek(); return t.k == "id" && t.s == s }
func (p *sparser) accept(s string) bool {
	if p.isOp(s) {
		p.p++
		return true
	}
	return false
}
func (p *sparser) expect(s string) {
	if !p.accept(s) {
		p.fail("expected %q, got %q", s, p.peek().s)
	}
}

func (p *sparser) expr() Expr {
	if p.isId("forall") || p.isId("exists") {
		fa := p.next().s == "forall"
		var vars []QVar
		var trig []Expr
		for {
			t := p.next()
			if t.k != "id" {
				p.fail("quantifier variable expected")
			}
			qv := QVar{Name: t.s}
			// optional type: tokens until , or ::
			var ty []string
			for !p.isOp(",") && !p.isOp("::") && !p.isOp("{") && p.peek().k != "eof" {
				ty = append(ty, p.next().s)
			}
			qv.Type = strings.Join(ty, "")
			vars = append(vars, qv)
			if p.accept(",") {
				continue
			}
			if p.accept("{") {
				for {
					trig = append(trig, p.iff())
					if p.accept(",") {
						continue
					}
					p.expect("}")
					break
				}
			}
			p.expect("::")
			break
		}
		// untyped variables take the type of the next typed one (Go style "i, j int")
		for i := len(vars) - 2; i >= 0; i-- {
			if vars[i].Type == "" {
				vars[i].Type = vars[i+1].Type
			}
		}
		body := p.expr()
		return &EQuant{Forall: fa, Vars: vars, Body: body, Triggers: trig}
	}
	if p.isId("let") {
		p.next()
		n := p.next()
		p.expect("=")
		p.noIn++
		v := p.iff()
		p.noIn--
		if !p.isId("in") {
			p.fail("expected 'in'")
		}
		p.next()
		b := p.expr()
		return &ELet{Name: n.s, Val: v, Body: b}
	}
	return p.iff()
}

func (p *sparser) iff() Expr {
	x := p.impl()
	for p.accept("<==>") {
		y := p.impl()
		x = &EBinary{"<==>", x, y}
	}
	return x
}
func (p *sparser) impl() Expr {
	x := p.cond()
	if p.accept("==>") {
		var y Expr
		if p.isId("forall") || p.isId("exists") || p.isId("let") {
			y = p.expr()
		} else {
			y = p.impl()
		}
		return &EBinary{"==>", x, y}
	}
	return x
}
func (p *sparser) cond() Expr {
	c := p.orE()
	if p.accept("?") {
		a := p.cond()
		p.expect(":")
		b := p.cond()
		return &ECond{c, a, b}
	}
	return c
}
func (p *sparser) orE() Expr {
	x := p.andE()
	for p.accept("||") {
		x = &EBinary{"||", x, p.andE()}
	}
	return x
}
func (p *sparser) andE() Expr {
	x := p.cmp()
	for p.accept("&&") {
		var y Expr
		if p.isId("forall") || p.isId("exists") {
			y = p.expr()
		} else {
			y = p.cmp()
		}
		x = &EBinary{"&&", x, y}
	}
	return x
}
func (p *sparser) cmp() Expr {
	x := p.addE()
	for {
		t := p.peek()
		if t.k == "op" && (t.s == "==" || t.s == "!=" || t.s == "<" || t.s == "<=" || t.s == ">" || t.s == ">=") {
			p.next()
			y := p.addE()
			// chained comparison a <= b < c  ==> (a <= b) && (b < c)
			cur := Expr(&EBinary{t.s, x, y})
			for {
				t2 := p.peek()
				if t2.k == "op" && (t2.s == "<" || t2.s == "<=" || t2.s == ">" || t2.s == ">=") && (t.s == "<" || t.s == "<=" || t.s == ">" || t.s == ">=") {
					p.next()
					z := p.addE()
					cur = &EBinary{"&&", cur, &EBinary{t2.s, y, z}}
					y = z
					continue
				}
				break
			}
			x = cur
			continue
		}
		if t.k == "id" && t.s == "in" && p.noIn == 0 {
			p.next()
			y := p.addE()
			x = &EBinary{"in", x, y}
			continue
		}
		return x
	}
}
func (p *sparser) addE() Expr {
	x := p.mulE()
	for {
		t := p.peek()
		if t.k == "op" && (t.s == "+" || t.s == "-" || t.s == "|" || t.s == "^") {
			p.next()
			x = &EBinary{t.s, x, p.mulE()}
			continue
		}
		return x
	}
}
func (p *sparser) mulE() Expr {
	x := p.unary()
	for {
		t := p.peek()
		if t.k == "op" && (t.s == "*" || t.s == "/" || t.s == "%" || t.s == "&" || t.s == "<<" || t.s == ">>" || t.s == "&^") {
			p.next()
			x = &EBinary{t.s, x, p.unary()}
			continue
		}
		return x
	}
}
func (p *sparser) unary() Expr {
	t := p.peek()
	if t.k == "op" && (t.s == "!" || t.s == "-" || t.s == "*" || t.s == "&") {
		p.next()
		return &EUnary{t.s, p.unary()}
	}
	return p.postfix()
}
func (p *sparser) postfix() Expr {
	x := p.primary()
	for {
		switch {
		case p.accept("."):
			t := p.next()
			if t.k != "id" {
				p.fail("field name expected")
			}
			x = &ESel{x, t.s}
		case p.accept("["):
			var lo, hi Expr
			if p.isOp(":") {
				p.next()
				if !p.isOp("]") {
					hi = p.expr()
				}
				p.expect("]")
				x = &ESlice{x, nil, hi}
				continue
			}
			lo = p.expr()
			if p.accept(":") {
				if !p.isOp("]") {
					hi = p.expr()
				}
				p.expect("]")
				x = &ESlice{x, lo, hi}
				continue
			}
			p.expect("]")
			x = &EIndex{x, lo}
		case p.accept("("):
			var args []Expr
			for !p.isOp(")") {
				args = append(args, p.expr())
				if !p.accept(",") {
					break
				}
			}
			p.expect(")")
			x = &ECall{x, args}
		default:
			return x
		}
	}
}
func (p *sparser) primary() Expr {
	t := p.next()
	switch t.k {
	case "int":
		return &EInt{t.n}
	case "str":
		return &EStr{t.s}
	case "id":
		switch t.s {
		case "true":
			return &EBool{true}
		case "false":
			return &EBool{false}
		case "nil":
			return &ENil{}
		}
		return &EIdent{t.s}
	case "op":
		if t.s == "(" {
			e := p.expr()
			p.expect(")")
			return e
		}
		if t.s == "[" {
			// type expression like []byte(x): collect "[]T"
			p.expect("]")
			id := p.next()
			return &EIdent{"[]" + id.s}
		}
	}
	p.fail("unexpected token %q", t.s)
	return nil
}

// ---------------------------------------------------------------------------
// Contract files

type Clause struct {
	Kind string // requires, ensures, invariant(loop), modifies, ...
	Loop string // for loop invariants: ordinal or label
	Text string
	E    Expr
	Line int
	File string
	Name string // optional clause label
	Assumed bool // `ensures assumed ...`: relied on at call sites, not proved for the body (listed as an assumption)
}

type Contract struct {
	Key      string // pkg.funckey
	Pkg      string
	Serves   []string
	Returns  []string // result names
	Requires []*Clause
	Assumes  []*Clause // assumed at entry (established by the runtime that invokes the function), not an obligation of module callers
	Ensures  []*Clause
	LoopInv  []*Clause
	LoopBack []*Clause // loop <k> backedge requires
	Modifies []string
	HasMod   bool
	Safety   bool
	SafetyFor []string // empty = every property the contract serves
	Assumed  bool   // "assume func": contract is trusted, body not verified
	Inline   bool
	PanicsOK bool   // explicit panics are allowed (specified by "panics when" handled separately)
	Panics   []*Clause
	Ghost    []*Clause // ghost statements: "ghost at <point>: name := expr"
	Calls    []*Clause // "call <callee>#k requires <expr>" obligations at call sites
	Asserts  []*Clause
	Preserves []*Clause // closures: `preserves e` - e over captured variables, assumed on entry, proved on exit, kept across library calls that call the closure back
	Opts     map[string]string
	File     string
	Line     int
}

type SpecFunc struct {
	Name    string
	Pkg     string
	Params  []QVar
	Result  string
	BodySrc string
	Body    Expr
	Axioms  []*Clause
	File    string
	Line    int
	Serves  []string
}

type GhostVar struct {
	Name string
	Pkg  string
	Type string
}

type Lemma struct {
	Name   string
	Pkg    string
	Serves []string
	Vars   []QVar
	Text   string
	E      Expr
	File   string
	Line   int
}

type LockInv struct {
	Pkg    string
	Type   string // struct type name
	Mutex  string // field name
	Guards []string
	Text   string
	E      Expr
	Serves []string
	Line   int
}

type GlobalInv struct {
	Serves []string
	Pkg    string
	Global string
	Text   string
	E      Expr
	Line   int
	File   string
}

// Structural obligations decided on the type information / call graph rather than by SMT:
//   callers <callee>: f, g      every static call of <callee> (prefix "lib:" + package path for a whole package) is in f or g
//   writers T.f: f, g           every store to field f of T is in f or g
//   jsonfields T: a, b.c        the JSON field names of T (recursively) are exactly the listed ones
type Structural struct {
	Kind    string
	Pkg     string
	Target  string
	Allowed []string
	Serves  []string
	File    string
	Line    int
}

type Specs struct {
	Structurals []*Structural
	Contracts  map[string]*Contract
	// Implicit: safety-only contracts synthesised for module functions WITHOUT a contract that a function under a
	// `safety` contract calls (transitively): a helper called from a decoder must not panic either. They are used only
	// to verify the helper's own body; call sites treat the helper as before (inlined or havocked).
	Implicit map[string]*Contract
	Funcs      map[string]*SpecFunc // by pkg.name and bare name
	Ghosts     map[string]*GhostVar
	Lemmas     []*Lemma
	LockInvs   []*LockInv
	GlobalInvs []*GlobalInv
	Axioms     []*Clause
	TypeInvs   map[string]*Clause // pkg.Type -> invariant
	Errors     []string
}

var clauseKeywords = map[string]bool{"assumes": true, "requires": true, "ensures": true, "modifies": true, "safety": true, "loop": true,
	"returns": true, "panics": true, "ghost": true, "call": true, "serves": true, "inline": true, "assert": true, "opt": true, "preserves": true}

// parseSpecText parses the //@ lines of one file.
func (sp *Specs) parseSpecText(pkg, file, text string) {
	type ln struct {
		s string
		n int
	}
	var lines []ln
	for i, l := range strings.Split(text, "\n") {
		t := strings.TrimSpace(l)
		if !strings.HasPrefix(t, "//@") {
			continue
		}
		body := strings.TrimSpace(t[3:])
		if body == "" {
			continue
		}
		lines = append(lines, ln{body, i + 1})
	}
	// group: top-level items start with func / assume func / pure func / ghost var / lemma / lockinv / axiom / globalinv / typeinv
	isTop := func(s string) bool {
		for _, p := range []string{"func ", "assume func ", "pure func ", "ghost var ", "lemma ", "lockinv ", "axiom ", "globalinv ", "typeinv ", "callers ", "jsonfields ", "writers ", "callees ", "fieldtypes ", "synchronous "} {
			if strings.HasPrefix(s, p) {
				return true
			}
		}
		return false
	}
	var cur *Contract
	var lastClause *Clause
	var lastText *string
	errf := func(n int, f string, a ...interface{}) {
		sp.Errors = append(sp.Errors, fmt.Sprintf("%s:%d: %s", file, n, fmt.Sprintf(f, a...)))
	}
	flush := func() {
		lastClause = nil
		lastText = nil
	}
	type pending struct {
		set func(text string, n int)
		txt string
		n   int
	}
	var pend *pending
	finish := func() {
		if pend != nil {
			pend.set(pend.txt, pend.n)
			pend = nil
		}
	}
	_ = flush
	_ = lastClause
	_ = lastText
	for _, l := range lines {
		s := l.s
		first := s
		if i := strings.IndexAny(s, " \t"); i >= 0 {
			first = s[:i]
		}
		if isTop(s) {
			finish()
			cur = nil
			switch {
			case strings.HasPrefix(s, "func ") || strings.HasPrefix(s, "assume func "):
				assumed := strings.HasPrefix(s, "assume ")
				rest := strings.TrimSpace(strings.TrimPrefix(strings.TrimPrefix(s, "assume "), "func "))
				key, serves := splitServes(rest)
				c := &Contract{Key: qualify(pkg, key), Pkg: pkg, Serves: serves, Assumed: assumed, File: file, Line: l.n, Opts: map[string]string{}}
				if old, dup := sp.Contracts[c.Key]; dup {
					errf(l.n, "duplicate contract for %s (first at line %d)", c.Key, old.Line)
				}
				sp.Contracts[c.Key] = c
				cur = c
			case strings.HasPrefix(s, "pure func "):
				txt, n := s, l.n
				pend = &pending{txt: txt, n: n, set: func(text string, n int) {
					f, err := parsePureFunc(pkg, text)
					if err != nil {
						errf(n, "%v", err)
						return
					}
					f.File, f.Line = file, n
					sp.Funcs[f.Name] = f
				}}
			case strings.HasPrefix(s, "ghost var "):
				f := strings.Fields(strings.TrimPrefix(s, "ghost var "))
				if len(f) < 2 {
					errf(l.n, "ghost var name type")
					continue
				}
				sp.Ghosts[f[0]] = &GhostVar{Name: f[0], Pkg: pkg, Type: strings.Join(f[1:], " ")}
			case strings.HasPrefix(s, "lemma "):
				pend = &pending{txt: s, n: l.n, set: func(text string, n int) {
					lm, err := parseLemma(pkg, text)
					if err != nil {
						errf(n, "%v", err)
						return
					}
					lm.File, lm.Line = file, n
					sp.Lemmas = append(sp.Lemmas, lm)
				}}
			case strings.HasPrefix(s, "axiom "):
				pend = &pending{txt: s, n: l.n, set: func(text string, n int) {
					body := strings.TrimPrefix(text, "axiom ")
					e, err := parseSpecExpr(body)
					if err != nil {
						errf(n, "%v", err)
						return
					}
					sp.Axioms = append(sp.Axioms, &Clause{Kind: "axiom", Text: body, E: e, Line: n, File: file, Name: pkg})
				}}
			case strings.HasPrefix(s, "lockinv "):
				pend = &pending{txt: s, n: l.n, set: func(text string, n int) {
					li, err := parseLockInv(pkg, text)
					if err != nil {
						errf(n, "%v", err)
						return
					}
					li.Line = n
					sp.LockInvs = append(sp.LockInvs, li)
				}}
			case strings.HasPrefix(s, "globalinv "):
				pend = &pending{txt: s, n: l.n, set: func(text string, n int) {
					rest := strings.TrimPrefix(text, "globalinv ")
					i := strings.Index(rest, ":")
					if i < 0 {
						errf(n, "globalinv name: expr")
						return
					}
					e, err := parseSpecExpr(rest[i+1:])
					if err != nil {
						errf(n, "%v", err)
						return
					}
					gname, serves := splitServes(rest[:i])
					sp.GlobalInvs = append(sp.GlobalInvs, &GlobalInv{Pkg: pkg, Global: gname, Serves: serves, Text: strings.TrimSpace(rest[i+1:]), E: e, Line: n, File: file})
				}}
			case strings.HasPrefix(s, "callers ") || strings.HasPrefix(s, "jsonfields ") || strings.HasPrefix(s, "writers ") || strings.HasPrefix(s, "callees ") || strings.HasPrefix(s, "fieldtypes ") || strings.HasPrefix(s, "synchronous "):
				kind := strings.Fields(s)[0]
				pend = &pending{txt: s, n: l.n, set: func(text string, n int) {
					rest := strings.TrimSpace(strings.TrimPrefix(text, kind))
					i := strings.Index(rest, ":")
					if i < 0 {
						errf(n, "%s <target> [serves ..]: a, b, c", kind)
						return
					}
					target, serves := splitServes(rest[:i])
					st := &Structural{Kind: kind, Pkg: pkg, Target: target, Serves: serves, File: file, Line: n}
					for _, x := range strings.Split(rest[i+1:], ",") {
						if x = strings.TrimSpace(x); x != "" {
							st.Allowed = append(st.Allowed, x)
						}
					}
					sp.Structurals = append(sp.Structurals, st)
				}}
			case strings.HasPrefix(s, "typeinv "):
				pend = &pending{txt: s, n: l.n, set: func(text string, n int) {
					rest := strings.TrimPrefix(text, "typeinv ")
					i := strings.Index(rest, ":")
					if i < 0 {
						errf(n, "typeinv T: expr")
						return
					}
					e, err := parseSpecExpr(rest[i+1:])
					if err != nil {
						errf(n, "%v", err)
						return
					}
					sp.TypeInvs[pkg+"."+strings.TrimSpace(rest[:i])] = &Clause{Kind: "typeinv", Text: rest[i+1:], E: e, Line: n, File: file}
				}}
			}
			continue
		}
		if cur == nil {
			// continuation of a pending top-level item
			if pend != nil {
				pend.txt += " " + s
			} else {
				errf(l.n, "clause outside of a contract: %s", s)
			}
			continue
		}
		if !clauseKeywords[first] {
			// continuation of previous clause
			if pend != nil {
				pend.txt += " " + s
			} else {
				errf(l.n, "unexpected line: %s", s)
			}
			continue
		}
		finish()
		c := cur
		rest := strings.TrimSpace(s[len(first):])
		mk := func(kind, loop string) {
			pend = &pending{txt: rest, n: l.n, set: func(text string, n int) {
				name := ""
				// optional label  [name]
				tt := strings.TrimSpace(text)
				if strings.HasPrefix(tt, "[") {
					if j := strings.Index(tt, "]"); j > 0 {
						name = tt[1:j]
						tt = strings.TrimSpace(tt[j+1:])
					}
				}
				e, err := parseSpecExpr(tt)
				if err != nil {
					errf(n, "%v", err)
					return
				}
				cl := &Clause{Kind: kind, Loop: loop, Text: tt, E: e, Line: n, File: file, Name: name}
				switch kind {
				case "requires":
					c.Requires = append(c.Requires, cl)
				case "assumes":
					c.Assumes = append(c.Assumes, cl)
				case "ensures":
					c.Ensures = append(c.Ensures, cl)
				case "ensures-assumed":
					cl.Kind = "ensures"
					cl.Assumed = true
					c.Ensures = append(c.Ensures, cl)
				case "invariant":
					c.LoopInv = append(c.LoopInv, cl)
				case "backedge":
					c.LoopBack = append(c.LoopBack, cl)
				case "panics":
					c.Panics = append(c.Panics, cl)
				case "assert":
					c.Asserts = append(c.Asserts, cl)
				case "preserves":
					c.Preserves = append(c.Preserves, cl)
				}
			}}
		}
		switch first {
		case "requires", "ensures":
			if first == "ensures" && strings.HasPrefix(rest, "assumed ") {
				rest = strings.TrimSpace(strings.TrimPrefix(rest, "assumed "))
				mk("ensures-assumed", "")
				break
			}
			mk(first, "")
		case "assumes":
			mk("assumes", "")
		case "assert":
			mk("assert", "")
		case "preserves":
			mk("preserves", "")
		case "panics":
			rest = strings.TrimSpace(strings.TrimPrefix(rest, "when"))
			mk("panics", "")
		case "loop":
			f := strings.Fields(rest)
			if len(f) >= 4 && f[1] == "backedge" && f[2] == "requires" {
				// loop <k> backedge requires [label] <expr>: holds at the end of every iteration
				// (evaluated where the body jumps back to the header, with the body's locals in scope)
				loop := f[0]
				rest = strings.TrimSpace(strings.TrimPrefix(strings.TrimSpace(strings.TrimPrefix(strings.TrimSpace(strings.TrimPrefix(rest, loop)), "backedge")), "requires"))
				mk("backedge", loop)
				continue
			}
			if len(f) < 3 || f[1] != "invariant" {
				errf(l.n, "loop <k> invariant <expr>")
				continue
			}
			loop := f[0]
			rest = strings.TrimSpace(strings.TrimPrefix(strings.TrimSpace(strings.TrimPrefix(rest, loop)), "invariant"))
			mk("invariant", loop)
		case "modifies":
			c.HasMod = true
			for _, m := range strings.Split(rest, ",") {
				m = strings.TrimSpace(m)
				if m != "" && m != "nothing" {
					c.Modifies = append(c.Modifies, m)
				}
			}
		case "safety":
			// "safety" = in every check the function serves; "safety C14, C01" = only in the checks of these properties
			c.Safety = true
			for _, r := range strings.Split(rest, ",") {
				if r = strings.TrimSpace(r); r != "" {
					c.SafetyFor = append(c.SafetyFor, r)
				}
			}
		case "inline":
			c.Inline = true
		case "returns":
			rest = strings.Trim(rest, "()")
			for _, r := range strings.Split(rest, ",") {
				c.Returns = append(c.Returns, strings.TrimSpace(r))
			}
		case "serves":
			for _, r := range strings.Split(rest, ",") {
				c.Serves = append(c.Serves, strings.TrimSpace(r))
			}
		case "opt":
			f := strings.SplitN(rest, "=", 2)
			if len(f) == 2 {
				c.Opts[strings.TrimSpace(f[0])] = strings.TrimSpace(f[1])
			} else {
				c.Opts[strings.TrimSpace(rest)] = "1"
			}
		case "ghost":
			c.Ghost = append(c.Ghost, &Clause{Kind: "ghost", Text: rest, Line: l.n, File: file})
		case "call":
			c.Calls = append(c.Calls, &Clause{Kind: "call", Text: rest, Line: l.n, File: file})
		}
	}
	finish()
}

func qualify(pkg, key string) string {
	if strings.HasPrefix(key, "lib.") {
		return key
	}
	if strings.HasPrefix(key, "iface.") {
		return key[len("iface."):] // interface method of another package: <pkg>.<Interface>.<Method>
	}
	// keys inside a package file are written without the package prefix
	if strings.HasPrefix(key, pkg+".") {
		return key
	}
	return pkg + "." + key
}

func splitServes(s string) (string, []string) {
	i := strings.Index(s, " serves ")
	if i < 0 {
		return strings.TrimSpace(s), nil
	}
	var out []string
	for _, x := range strings.Split(s[i+len(" serves "):], ",") {
		out = append(out, strings.TrimSpace(x))
	}
	return strings.TrimSpace(s[:i]), out
}

// pure func name(a T, b U) R [= expr]
func parsePureFunc(pkg, text string) (*SpecFunc, error) {
	rest := strings.TrimPrefix(text, "pure func ")
	i := strings.Index(rest, "(")
	if i < 0 {
		return nil, fmt.Errorf("pure func: missing (")
	}
	f := &SpecFunc{Name: strings.TrimSpace(rest[:i]), Pkg: pkg}
	depth := 0
	j := i
	for ; j < len(rest); j++ {
		if rest[j] == '(' {
			depth++
		} else if rest[j] == ')' {
			depth--
			if depth == 0 {
				break
			}
		}
	}
	if j >= len(rest) {
		return nil, fmt.Errorf("pure func: missing )")
	}
	ps := rest[i+1 : j]
	for _, p := range splitTop(ps, ',') {
		p = strings.TrimSpace(p)
		if p == "" {
			continue
		}
		k := strings.IndexAny(p, " \t")
		if k < 0 {
			f.Params = append(f.Params, QVar{Name: p})
		} else {
			f.Params = append(f.Params, QVar{Name: p[:k], Type: strings.TrimSpace(p[k:])})
		}
	}
	for k := len(f.Params) - 2; k >= 0; k-- {
		if f.Params[k].Type == "" {
			f.Params[k].Type = f.Params[k+1].Type
		}
	}
	tail := strings.TrimSpace(rest[j+1:])
	if e := strings.Index(tail, "="); e >= 0 && !strings.HasPrefix(tail[e:], "==") {
		f.Result = strings.TrimSpace(tail[:e])
		f.BodySrc = strings.TrimSpace(tail[e+1:])
		b, err := parseSpecExpr(f.BodySrc)
		if err != nil {
			return nil, err
		}
		f.Body = b
	} else {
		f.Result = tail
	}
	if f.Result == "" {
		f.Result = "bool"
	}
	return f, nil
}

func splitTop(s string, sep byte) []string {
	var out []string
	d := 0
	last := 0
	for i := 0; i < len(s); i++ {
		switch s[i] {
		case '(', '[', '{':
			d++
		case ')', ']', '}':
			d--
		default:
			if s[i] == sep && d == 0 {
				out = append(out, s[last:i])
				last = i + 1
			}
		}
	}
	out = append(out, s[last:])
	return out
}

// lemma name [serves C..] : expr
func parseLemma(pkg, text string) (*Lemma, error) {
	rest := strings.TrimPrefix(text, "lemma ")
	i := strings.Index(rest, ":")
	if i < 0 {
		return nil, fmt.Errorf("lemma name: expr")
	}
	head, serves := splitServes(rest[:i])
	e, err := parseSpecExpr(rest[i+1:])
	if err != nil {
		return nil, err
	}
	return &Lemma{Name: strings.TrimSpace(head), Pkg: pkg, Serves: serves, Text: strings.TrimSpace(rest[i+1:]), E: e}, nil
}

// lockinv T.mu guards f1,f2 [serves ...] : expr
func parseLockInv(pkg, text string) (*LockInv, error) {
	rest := strings.TrimPrefix(text, "lockinv ")
	i := strings.Index(rest, ":")
	if i < 0 {
		return nil, fmt.Errorf("lockinv T.mu guards f,.. : expr")
	}
	head, serves := splitServes(rest[:i])
	f := strings.Fields(head)
	if len(f) < 3 || f[1] != "guards" {
		return nil, fmt.Errorf("lockinv T.mu guards f,.. : expr")
	}
	tm := strings.SplitN(f[0], ".", 2)
	if len(tm) != 2 {
		return nil, fmt.Errorf("lockinv: T.mu expected")
	}
	e, err := parseSpecExpr(rest[i+1:])
	if err != nil {
		return nil, err
	}
	li := &LockInv{Pkg: pkg, Type: tm[0], Mutex: tm[1], Text: strings.TrimSpace(rest[i+1:]), E: e, Serves: serves}
	for _, g := range strings.Split(strings.Join(f[2:], ""), ",") {
		if g != "" {
			li.Guards = append(li.Guards, g)
		}
	}
	return li, nil
}

func newSpecs() *Specs {
	return &Specs{Contracts: map[string]*Contract{}, Funcs: map[string]*SpecFunc{}, Ghosts: map[string]*GhostVar{}, TypeInvs: map[string]*Clause{}}
}
