package main

import (
	"bytes"
	"context"
	"fmt"
	"os"
	"os/exec"
	"path/filepath"
	"strings"
	"sync"
	"time"
)

type solverSpec struct {
	name string
	argv func(file string, sec int) []string
}

var solvers = []solverSpec{
	{"z3-5.1.0", func(f string, sec int) []string { return []string{"z3-new", fmt.Sprintf("-T:%d", sec), f} }},
	{"z3-4.8.12", func(f string, sec int) []string { return []string{"z3", fmt.Sprintf("-T:%d", sec), f} }},
	{"cvc5-1.0.3", func(f string, sec int) []string {
		return []string{"cvc5", fmt.Sprintf("--tlimit=%d", sec*1000), "--produce-models", f}
	}},
}

type solveResult struct {
	verdict string // unsat, sat, unknown
	solver  string
	ms      int64
	output  string
}

func (o *Obligation) query() string {
	var sb strings.Builder
	sb.WriteString(o.Context.text(o.NAssert))
	if o.Reach.S != "" && o.Reach.S != "true" {
		sb.WriteString("(assert " + o.Reach.S + ")\n")
	}
	sb.WriteString("(assert (not " + o.Goal.S + "))\n")
	sb.WriteString("(check-sat)\n")
	if len(o.Inputs) > 0 {
		var ts []string
		for _, in := range o.Inputs {
			ts = append(ts, in.T.S)
		}
		sb.WriteString("(get-value (" + strings.Join(ts, " ") + "))\n")
	} else {
		sb.WriteString("(get-model)\n")
	}
	return sb.String()
}

// solve races the installed solvers on one query file.
func solve(file string, sec int, seed int) solveResult {
	ctx, cancel := context.WithTimeout(context.Background(), time.Duration(sec+5)*time.Second)
	defer cancel()
	type res struct {
		r solveResult
	}
	ch := make(chan solveResult, len(solvers))
	var cmds []*exec.Cmd
	var mu sync.Mutex
	for _, s := range solvers {
		s := s
		go func() {
			argv := s.argv(file, sec)
			cmd := exec.CommandContext(ctx, argv[0], argv[1:]...)
			var out bytes.Buffer
			cmd.Stdout = &out
			cmd.Stderr = &out
			mu.Lock()
			cmds = append(cmds, cmd)
			mu.Unlock()
			t0 := time.Now()
			cmd.Run()
			txt := out.String()
			first := strings.TrimSpace(strings.SplitN(txt, "\n", 2)[0])
			v := "unknown"
			if first == "unsat" || first == "sat" {
				v = first
			} else if strings.HasPrefix(first, "(error") {
				v = "error"
			}
			ch <- solveResult{verdict: v, solver: s.name, ms: time.Since(t0).Milliseconds(), output: txt}
		}()
	}
	var last solveResult
	got := 0
	for got < len(solvers) {
		r := <-ch
		got++
		if r.verdict == "unsat" || r.verdict == "sat" {
			cancel()
			return r
		}
		if last.output == "" || r.verdict == "error" || (len(r.output) > len(last.output) && last.verdict != "error") {
			last = r
		}
	}
	if last.verdict != "error" {
		last.verdict = "unknown"
	}
	return last
}

// solveAll discharges obligations in parallel.
func solveAll(obls []*Obligation, workDir string, sec int, seed int, workers int) {
	os.MkdirAll(workDir, 0o755)
	var wg sync.WaitGroup
	sem := make(chan struct{}, workers)
	for i, o := range obls {
		if o.Status != "" {
			continue
		}
		wg.Add(1)
		sem <- struct{}{}
		go func(i int, o *Obligation) {
			defer wg.Done()
			defer func() { <-sem }()
			file := filepath.Join(workDir, fmt.Sprintf("o%04d.smt2", i))
			q := o.query()
			os.WriteFile(file, []byte(q), 0o644)
			o.Query = file
			osec := sec
			if o.Expect == "sat" && osec > 3 {
				osec = 3 // vacuity guards only need a quick look for an inconsistency
			}
			r := solve(file, osec, seed)
			o.Solver = r.solver
			o.Ms = r.ms
			o.Model = r.output
			switch {
			case o.Expect == "sat":
				switch r.verdict {
				case "sat", "unknown":
					o.Status = "cover-ok" // unknown: cannot show inconsistency; accepted
				default:
					o.Status = "cover-failed"
				}
			case r.verdict == "unsat":
				o.Status = "discharged"
			case r.verdict == "sat":
				o.Status = "refuted"
			case r.verdict == "error":
				o.Status = "error"
			default:
				o.Status = "undecided"
			}
		}(i, o)
	}
	wg.Wait()
}
