package main

import (
	"golang.org/x/tools/go/ssa"
	"flag"
	"strings"
	"fmt"
	"os"
	"time"
)

func main() {
	if len(os.Args) < 2 {
		fmt.Fprintln(os.Stderr, "usage: lbvc dump|check ...")
		os.Exit(2)
	}
	switch os.Args[1] {
	case "dump":
		fs := flag.NewFlagSet("dump", flag.ExitOnError)
		repo := fs.String("repo", "/repo", "repository")
		fs.Parse(os.Args[2:])
		t0 := time.Now()
		w, err := loadWorld(*repo)
		if err != nil {
			fmt.Fprintln(os.Stderr, err)
			os.Exit(2)
		}
		fmt.Fprintf(os.Stderr, "loaded in %v, %d functions\n", time.Since(t0), len(w.AllFn))
		for _, k := range fs.Args() {
			fn := w.Funcs[k]
			if fn == nil {
				fmt.Println("no such function", k)
				continue
			}
			fn.WriteTo(os.Stdout)
		}
		if len(fs.Args()) == 0 {
			for _, f := range w.AllFn {
				fmt.Println(funcKey(f))
			}
		}
	case "mods":
		w, err := loadWorld("/repo")
		if err != nil {
			fmt.Fprintln(os.Stderr, err)
			os.Exit(2)
		}
		sp := loadSpecs(w, "/verif")
		ms := newModSets(w, sp)
		for _, k := range os.Args[2:] {
			fn := w.Funcs[k]
			if fn == nil {
				fmt.Println("no such function", k)
				continue
			}
			fmt.Println(k, ":")
			for _, m := range sortedKeys(ms.total[fn]) {
				fmt.Println("   ", m)
			}
		}
	case "whymod":
		// lbvc whymod <function key> <component>: one chain of callees through which the component enters the mod-set
		w, err := loadWorld("/repo")
		if err != nil {
			fmt.Fprintln(os.Stderr, err)
			os.Exit(2)
		}
		sp := loadSpecs(w, "/verif")
		ms := newModSets(w, sp)
		fn := w.Funcs[os.Args[2]]
		comp := os.Args[3]
		seen := map[string]bool{}
		for fn != nil {
			fmt.Println(funcKey(fn), "direct:", ms.direct[fn][comp])
			if ms.direct[fn][comp] || seen[funcKey(fn)] {
				break
			}
			seen[funcKey(fn)] = true
			var next *ssa.Function
			for _, c := range ms.callees[fn] {
				if ms.total[c][comp] && !seen[funcKey(c)] {
					next = c
					break
				}
			}
			fn = next
		}
	case "callers":
		w, err := loadWorld("/repo")
		if err != nil {
			fmt.Fprintln(os.Stderr, err)
			os.Exit(2)
		}
		sp := loadSpecs(w, "/verif")
		ms := newModSets(w, sp)
		for _, k := range os.Args[2:] {
			st := &Structural{Kind: "callers", Pkg: strings.SplitN(k, ".", 2)[0], Target: k}
			if strings.HasPrefix(k, "lib:") {
				st.Pkg = "server"
			}
			o := structuralObligation(w, ms, st)
			fmt.Println(k, "<-")
			fmt.Println(o.Model)
		}
	case "check":
		os.Exit(cmdCheck(os.Args[2:]))
	default:
		fmt.Fprintln(os.Stderr, "unknown command")
		os.Exit(2)
	}
}
