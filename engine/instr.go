package main

import (
	"fmt"
	"strings"
	"go/token"
	"go/types"
	"math/big"

	"golang.org/x/tools/go/ssa"
)

func (t *Tr) ensureComp(name string) {
	if _, ok := t.c.compSort[name]; ok {
		return
	}
	if strings.HasPrefix(name, "ghost:") {
		t.baseEnv(t.entrySt).ghostVar(name[6:])
		return
	}
	if s, ok := t.ms.compSorts[name]; ok {
		t.c.regComp(name, s(t.c))
		return
	}
}

func (t *Tr) regField(styp types.Type, fi int) (string, types.Type) {
	st := styp.Underlying().(*types.Struct)
	f := st.Field(fi)
	comp := compField(styp, f.Name())
	t.c.regComp(comp, arrSort(SInt, t.c.sortOf(f.Type())))
	return comp, f.Type()
}

func (t *Tr) regElem(elem types.Type) string {
	comp := compElem(elem)
	t.c.regComp(comp, arrSort(SInt, arrSort(SInt, t.c.sortOf(elem))))
	return comp
}

func (t *Tr) regOpaque(typ types.Type) string {
	comp := compOpaque(typ)
	t.c.regComp(comp, arrSort(SInt, t.c.sortOf(typ)))
	return comp
}

func deref(t types.Type) types.Type {
	if p, ok := types.Unalias(t).Underlying().(*types.Pointer); ok {
		return p.Elem()
	}
	return t
}

// locOf gives the location a pointer-typed SSA value points to.
func (t *Tr) locOf(v ssa.Value) *Loc {
	x := t.val(v)
	if x.Loc != nil {
		return x.Loc
	}
	pt := deref(v.Type())
	// reference to a heap struct handled by callers (FieldAddr); anything else: opaque pointer
	comp := t.regOpaque(pt)
	return &Loc{Kind: "opaque", Comp: comp, Idx: x.T, Typ: pt}
}

func (t *Tr) nilCheck(ptr Term, pos token.Pos, what string) {
	t.safetyObl("nil", pos, not(eq(ptr, tInt(0))), "nil dereference: "+what)
}

func (t *Tr) instr(in ssa.Instruction) {
	c := t.c
	st := t.curSt
	if t.onlyInstrs != nil && !t.onlyInstrs[in] {
		switch in.(type) {
		case *ssa.If, *ssa.Jump, *ssa.Return, *ssa.Panic:
		default:
			return
		}
	}
	switch x := in.(type) {
	case *ssa.DebugRef:
		return
	case *ssa.Alloc:
		t.alloc(x)
	case *ssa.FieldAddr:
		base := t.val(x.X)
		styp := deref(x.X.Type())
		sst := styp.Underlying().(*types.Struct)
		ftyp := sst.Field(x.Field).Type()
		if base.Loc != nil && base.Loc.Kind != "arr" {
			nl := *base.Loc
			nl.Path = append(append([]int{}, base.Loc.Path...), x.Field)
			nl.PTyp = append(append([]types.Type{}, base.Loc.PTyp...), styp)
			t.vals[x] = &Val{Loc: &nl, KnownLen: -1}
			return
		}
		ref := base.T
		t.nilCheck(ref, x.Pos(), x.X.Name()+"."+sst.Field(x.Field).Name())
		comp, _ := t.regField(styp, x.Field)
		t.vals[x] = &Val{Loc: &Loc{Kind: "field", Comp: comp, Idx: ref, Typ: ftyp}, KnownLen: -1}
	case *ssa.Field:
		base := t.val(x.X)
		t.define(x, &Val{T: c.structField(x.X.Type(), base.T, x.Field), KnownLen: -1})
	case *ssa.IndexAddr:
		t.indexAddr(x)
	case *ssa.Index:
		// array or string value indexing
		base := t.term(x.X)
		idx := t.term(x.Index)
		switch u := x.X.Type().Underlying().(type) {
		case *types.Array:
			t.safetyObl("index", x.Pos(), and(le(tInt(0), idx), lt(idx, tInt(u.Len()))), "array index in range")
			t.define(x, &Val{T: sel(base, idx), KnownLen: -1})
		default:
			t.safetyObl("index", x.Pos(), and(le(tInt(0), idx), lt(idx, app("str.len", SInt, base))), "string index in range")
			r := app("str.to_code", SInt, app("str.at", SStr, base, idx))
			t.define(x, &Val{T: r, KnownLen: -1})
		}
	case *ssa.UnOp:
		t.unop(x)
	case *ssa.Store:
		t.storeInstr(x)
	case *ssa.BinOp:
		t.define(x, &Val{T: t.binop(x.Op, x.X.Type(), x.Type(), t.term(x.X), t.term(x.Y), x.Pos()), KnownLen: -1})
	case *ssa.Convert:
		t.convert(x)
	case *ssa.ChangeType:
		v := t.val(x.X)
		t.vals[x] = v
	case *ssa.ChangeInterface:
		t.vals[x] = t.val(x.X)
	case *ssa.MultiConvert:
		t.vals[x] = t.havocVal(x.Name(), x.Type())
	case *ssa.SliceToArrayPointer:
		t.vals[x] = t.havocVal(x.Name(), x.Type())
	case *ssa.MakeInterface:
		t.makeInterface(x)
	case *ssa.TypeAssert:
		t.typeAssert(x)
	case *ssa.Extract:
		tv := t.val(x.Tuple)
		if x.Index < len(tv.Tup) {
			t.vals[x] = tv.Tup[x.Index]
		} else {
			t.vals[x] = t.havocVal(x.Name(), x.Type())
		}
	case *ssa.Slice:
		t.sliceInstr(x)
	case *ssa.MakeSlice:
		ln := t.term(x.Len)
		cp := t.term(x.Cap)
		t.safetyObl("makeslice", x.Pos(), and(le(tInt(0), ln), le(ln, cp)), "make: 0 <= len <= cap")
		elem := x.Type().Underlying().(*types.Slice).Elem()
		arr := t.newRef(st)
		comp := t.regElem(elem)
		zero := Term{fmt.Sprintf("((as const %s) %s)", arrSort(SInt, c.sortOf(elem)), c.zero(elem).S), arrSort(SInt, c.sortOf(elem))}
		t.c.set(st, comp, store(c.get(st, comp), arr, zero))
		t.define(x, &Val{T: mkSlice(arr, tInt(0), ln, cp), KnownLen: -1})
	case *ssa.MakeMap:
		m := t.newRef(st)
		mt := x.Type()
		t.regMap(mt)
		ks := c.sortOf(mt.Underlying().(*types.Map).Key())
		t.c.set(st, compMapDom(mt), store(c.get(st, compMapDom(mt)), m, Term{fmt.Sprintf("((as const %s) false)", arrSort(ks, SBool)), arrSort(ks, SBool)}))
		t.c.set(st, compMapLen(mt), store(c.get(st, compMapLen(mt)), m, tInt(0)))
		t.vals[x] = &Val{T: m, KnownLen: -1}
	case *ssa.MakeChan:
		t.vals[x] = &Val{T: t.newRef(st), KnownLen: -1}
	case *ssa.MakeClosure:
		r := t.newRef(st)
		t.vals[x] = &Val{T: r, Closure: x, KnownLen: -1}
		t.closureAxioms(x, r)
	case *ssa.Lookup:
		t.lookup(x)
	case *ssa.MapUpdate:
		t.mapUpdate(x)
	case *ssa.Range:
		t.vals[x] = &Val{T: t.term(x.X), KnownLen: -1}
		t.rangeStart(x)
	case *ssa.Next:
		t.next(x)
	case *ssa.Call:
		res := t.call(x, x.Common(), x.Pos())
		if res != nil {
			t.vals[x] = res
		}
	case *ssa.Go:
		t.goStmt(x)
	case *ssa.Defer:
		t.defers = append(t.defers, &deferRec{d: x, blk: t.curBlk, reach: t.reach[t.curBlk]})
	case *ssa.RunDefers:
		t.runDefers(x)
	case *ssa.Send:
		// no state change in the sequential abstraction; clauses may be attached to the send
		t.pseudoCall(x.Chan, x.X, x.Pos())
	case *ssa.Select:
		t.selectInstr(x)
	case *ssa.If:
		cond := t.term(x.Cond)
		b := t.curBlk
		t.setEdge(b, b.Succs[0], cond)
		t.setEdge(b, b.Succs[1], not(cond))
	case *ssa.Jump:
		b := t.curBlk
		t.setEdge(b, b.Succs[0], tTrue)
	case *ssa.Return:
		r := &retInfo{blk: t.curBlk, st: t.curSt.clone(), reach: t.reach[t.curBlk]}
		for _, rv := range x.Results {
			v := t.val(rv)
			if v.Loc != nil {
				v = &Val{T: t.term(rv), KnownLen: -1}
			}
			r.results = append(r.results, v)
		}
		t.rets = append(t.rets, r)
	case *ssa.Panic:
		t.panicInstr(x)
	default:
		t.unsup("instruction %T", in)
		if v, ok := in.(ssa.Value); ok {
			t.vals[v] = t.havocVal(v.Name(), v.Type())
		}
	}
}

func (t *Tr) setEdge(b, s *ssa.BasicBlock, cond Term) {
	k := [2]int{b.Index, s.Index}
	if old, ok := t.edgeCond[k]; ok {
		cond = or(old, cond) // both branches to the same block
	}
	t.edgeCond[k] = cond
	if t.backEdge[k] {
		t.outSt[b] = t.curSt
		t.backEdgeCheck(b, s, cond)
	}
}

func (t *Tr) newRef(st *State) Term {
	a := t.c.get(st, compAlloc)
	r := t.c.fresh("new", SInt)
	t.c.assert(eq(r, a))
	n := t.c.fresh(compAlloc, SInt)
	t.c.assert(eq(n, add(a, tInt(1))))
	t.c.set(st, compAlloc, n)
	return r
}

func (t *Tr) alloc(x *ssa.Alloc) {
	c := t.c
	st := t.curSt
	typ := deref(x.Type())
	switch u := typ.Underlying().(type) {
	case *types.Struct:
		r := t.newRef(st)
		for i := 0; i < u.NumFields(); i++ {
			comp, ft := t.regField(typ, i)
			t.c.set(st, comp, store(c.get(st, comp), r, c.zero(ft)))
		}
		t.vals[x] = &Val{T: r, KnownLen: -1}
	case *types.Array:
		arr := t.newRef(st)
		comp := t.regElem(u.Elem())
		zero := Term{fmt.Sprintf("((as const %s) %s)", arrSort(SInt, c.sortOf(u.Elem())), c.zero(u.Elem()).S), arrSort(SInt, c.sortOf(u.Elem()))}
		t.c.set(st, comp, store(c.get(st, comp), arr, zero))
		t.vals[x] = &Val{Loc: &Loc{Kind: "arr", Comp: comp, Idx: arr, Typ: typ, Len: tInt(u.Len())}, KnownLen: int(u.Len())}
	default:
		comp := cellName(x)
		c.regComp(comp, c.sortOf(typ))
		t.c.set(st, comp, c.zero(typ))
		t.vals[x] = &Val{Loc: &Loc{Kind: "cell", Comp: comp, Typ: typ}, KnownLen: -1}
	}
}

func (t *Tr) indexAddr(x *ssa.IndexAddr) {
	idx := t.term(x.Index)
	switch u := x.X.Type().Underlying().(type) {
	case *types.Slice:
		s := t.term(x.X)
		t.safetyObl("index", x.Pos(), and(le(tInt(0), idx), lt(idx, sLen(s))), fmt.Sprintf("index in range: %s[%s]", x.X.Name(), x.Index.Name()))
		comp := t.regElem(u.Elem())
		t.vals[x] = &Val{Loc: &Loc{Kind: "elem", Comp: comp, Idx: sArr(s), Idx2: add(sOff(s), idx), Typ: u.Elem()}, KnownLen: -1}
	case *types.Pointer:
		at := u.Elem().Underlying().(*types.Array)
		base := t.val(x.X)
		t.safetyObl("index", x.Pos(), and(le(tInt(0), idx), lt(idx, tInt(at.Len()))), "array index in range")
		if base.Loc != nil && base.Loc.Kind == "arr" {
			t.vals[x] = &Val{Loc: &Loc{Kind: "elem", Comp: base.Loc.Comp, Idx: base.Loc.Idx, Idx2: idx, Typ: at.Elem()}, KnownLen: -1}
			return
		}
		// pointer to an array stored as a value somewhere: not modelled precisely
		t.unsup("IndexAddr through pointer to array value")
		comp := t.regOpaque(at.Elem())
		t.vals[x] = &Val{Loc: &Loc{Kind: "opaque", Comp: comp, Idx: t.c.fresh("arrptr", SInt), Typ: at.Elem()}, KnownLen: -1}
	default:
		t.unsup("IndexAddr on %s", x.X.Type())
		t.vals[x] = t.havocVal(x.Name(), x.Type())
	}
}

func (t *Tr) unop(x *ssa.UnOp) {
	c := t.c
	st := t.curSt
	switch x.Op {
	case token.MUL: // load
		pt := deref(x.X.Type())
		base := t.val(x.X)
		if base.Loc == nil {
			if _, isStruct := pt.Underlying().(*types.Struct); isStruct {
				// load a whole struct through a reference
				t.nilCheck(base.T, x.Pos(), "*"+x.X.Name())
				t.define(x, &Val{T: t.loadStruct(st, pt, base.T), KnownLen: -1})
				return
			}
			t.nilCheck(base.T, x.Pos(), "*"+x.X.Name())
		}
		l := t.locOf(x.X)
		if l.Kind == "arr" {
			// load whole array value
			t.define(x, &Val{T: sel(c.get(st, l.Comp), l.Idx), KnownLen: -1})
			return
		}
		v := c.locRead(st, l)
		nm := c.declConst(x.Name(), v.Sort)
		c.assert(eq(nm, v))
		c.fact(c.typeFact(x.Type(), nm))
		t.loadFact(st, l, x.Type(), nm)
		t.vals[x] = &Val{T: nm, KnownLen: -1}
	case token.NOT:
		t.define(x, &Val{T: not(t.term(x.X)), KnownLen: -1})
	case token.SUB:
		v := app("-", t.c.sortOf(x.Type()), t.term(x.X))
		if isUnsigned(x.Type()) {
			v = t.wrap(v, x.Type())
		}
		t.define(x, &Val{T: v, KnownLen: -1})
	case token.XOR:
		// bitwise complement: -x-1 for signed, max-x for unsigned
		xv := t.term(x.X)
		if _, hi, ok := intRange(x.Type()); ok && isUnsigned(x.Type()) {
			t.define(x, &Val{T: sub(tBig(hi), xv), KnownLen: -1})
		} else {
			t.define(x, &Val{T: sub(sub(tInt(0), xv), tInt(1)), KnownLen: -1})
		}
	case token.ARROW:
		// channel receive: arbitrary value of the element type
		if x.CommaOk {
			tup := x.Type().(*types.Tuple)
			v := &Val{KnownLen: -1}
			v.Tup = append(v.Tup, t.havocVal(x.Name()+".v", tup.At(0).Type()), t.havocVal(x.Name()+".ok", tup.At(1).Type()))
			t.allocFact(st, tup.At(0).Type(), v.Tup[0].T)
			t.vals[x] = v
		} else {
			v := t.havocVal(x.Name(), x.Type())
			t.allocFact(st, x.Type(), v.T)
			t.vals[x] = v
		}
	default:
		t.unsup("unop %s", x.Op)
		t.vals[x] = t.havocVal(x.Name(), x.Type())
	}
}

func (t *Tr) loadStruct(st *State, typ types.Type, ref Term) Term {
	u := typ.Underlying().(*types.Struct)
	var fs []Term
	for i := 0; i < u.NumFields(); i++ {
		comp, _ := t.regField(typ, i)
		fs = append(fs, sel(t.c.get(st, comp), ref))
	}
	return t.c.mkStruct(typ, fs)
}

func (t *Tr) storeStruct(st *State, typ types.Type, ref Term, v Term) {
	u := typ.Underlying().(*types.Struct)
	for i := 0; i < u.NumFields(); i++ {
		comp, _ := t.regField(typ, i)
		t.c.set(st, comp, store(t.c.get(st, comp), ref, t.c.structField(typ, v, i)))
	}
}

func (t *Tr) storeInstr(x *ssa.Store) {
	st := t.curSt
	pt := deref(x.Addr.Type())
	base := t.val(x.Addr)
	v := t.term(x.Val)
	if base.Loc == nil {
		t.nilCheck(base.T, x.Pos(), "store through "+x.Addr.Name())
		if _, isStruct := pt.Underlying().(*types.Struct); isStruct {
			t.storeStruct(st, pt, base.T, v)
			return
		}
	}
	l := t.locOf(x.Addr)
	if l.Kind == "arr" {
		t.c.set(st, l.Comp, store(t.c.get(st, l.Comp), l.Idx, v))
		return
	}
	t.c.locWrite(st, l, v)
}

// wrap reduces a mathematical integer into the range of a fixed-width type.
func (t *Tr) wrap(v Term, typ types.Type) Term {
	lo, hi, ok := intRange(typ)
	if !ok {
		return v
	}
	size := new(big.Int).Add(new(big.Int).Sub(hi, lo), big.NewInt(1))
	if lo.Sign() == 0 {
		return app("mod", SInt, v, tBig(size))
	}
	// signed: ((v - lo) mod size) + lo
	return add(app("mod", SInt, sub(v, tBig(lo)), tBig(size)), tBig(lo))
}

func isPow2(n *big.Int) (int, bool) {
	if n.Sign() <= 0 {
		return 0, false
	}
	k := n.BitLen() - 1
	if new(big.Int).Lsh(big.NewInt(1), uint(k)).Cmp(n) == 0 {
		return k, true
	}
	return 0, false
}

func constOf(s string) (*big.Int, bool) {
	n := new(big.Int)
	if _, ok := n.SetString(s, 10); ok {
		return n, true
	}
	return nil, false
}

func (t *Tr) binop(op token.Token, xt types.Type, rt types.Type, a, b Term, pos token.Pos) Term {
	c := t.c
	srt := c.sortOf(xt)
	switch op {
	case token.EQL, token.NEQ:
		var e Term
		if srt == SSlice {
			// only comparison with nil is legal
			if b.S == nilSlice.S {
				e = eq(sArr(a), tInt(0))
			} else if a.S == nilSlice.S {
				e = eq(sArr(b), tInt(0))
			} else {
				e = eq(a, b)
			}
		} else {
			e = eq(a, b)
		}
		if op == token.NEQ {
			return not(e)
		}
		return e
	case token.LSS, token.LEQ, token.GTR, token.GEQ:
		ops := map[token.Token]string{token.LSS: "<", token.LEQ: "<=", token.GTR: ">", token.GEQ: ">="}
		if srt == SStr {
			switch op {
			case token.LSS:
				return app("str.<", SBool, a, b)
			case token.LEQ:
				return app("str.<=", SBool, a, b)
			case token.GTR:
				return app("str.<", SBool, b, a)
			default:
				return app("str.<=", SBool, b, a)
			}
		}
		return app(ops[op], SBool, a, b)
	}
	if srt == SStr && op == token.ADD {
		return app("str.++", SStr, a, b)
	}
	if srt == SBool {
		switch op {
		case token.AND, token.LAND:
			return and(a, b)
		case token.OR, token.LOR:
			return or(a, b)
		}
	}
	if srt == SReal {
		ops := map[token.Token]string{token.ADD: "+", token.SUB: "-", token.MUL: "*", token.QUO: "/"}
		if o, ok := ops[op]; ok {
			return app(o, SReal, a, b)
		}
		return c.fresh("fop", SReal)
	}
	var r Term
	switch op {
	case token.ADD:
		r = add(a, b)
	case token.SUB:
		r = sub(a, b)
	case token.MUL:
		r = mul(a, b)
	case token.QUO:
		t.safetyObl("div", pos, not(eq(b, tInt(0))), "division by zero")
		// Go truncates toward zero
		q := app("div", SInt, app("abs", SInt, a), app("abs", SInt, b))
		sameSign := eq(lt(a, tInt(0)), lt(b, tInt(0)))
		if isUnsigned(xt) {
			return app("div", SInt, a, b)
		}
		return ite(sameSign, q, sub(tInt(0), q))
	case token.REM:
		t.safetyObl("div", pos, not(eq(b, tInt(0))), "division by zero")
		if isUnsigned(xt) {
			return app("mod", SInt, a, b)
		}
		m := app("mod", SInt, app("abs", SInt, a), app("abs", SInt, b))
		return ite(lt(a, tInt(0)), sub(tInt(0), m), m)
	case token.SHL:
		if n, ok := constOf(b.S); ok && n.IsInt64() && n.Int64() < 256 {
			r = mul(a, tBig(new(big.Int).Lsh(big.NewInt(1), uint(n.Int64()))))
			return t.wrap(r, rt)
		}
		if w := smallWidth(rt); w > 0 {
			// variable shift of a narrow value: case split on the shift count
			r := tInt(0)
			for k := w - 1; k >= 0; k-- {
				r = ite(eq(b, tInt(int64(k))), t.wrap(mul(a, tBig(new(big.Int).Lsh(big.NewInt(1), uint(k)))), rt), r)
			}
			return r
		}
		return t.bitUF("shl", rt, a, b)
	case token.SHR:
		if n, ok := constOf(b.S); ok && n.IsInt64() && n.Int64() < 256 {
			return app("div", SInt, a, tBig(new(big.Int).Lsh(big.NewInt(1), uint(n.Int64()))))
		}
		return t.bitUF("shr", rt, a, b)
	case token.AND:
		for _, pr := range [][2]Term{{a, b}, {b, a}} {
			if n, ok := constOf(pr[1].S); ok {
				if k, p2 := isPow2(new(big.Int).Add(n, big.NewInt(1))); p2 && isUnsigned(xt) {
					return app("mod", SInt, pr[0], tBig(new(big.Int).Lsh(big.NewInt(1), uint(k))))
				}
				if k, p2 := isPow2(n); p2 && isUnsigned(xt) {
					// single bit test: (x div 2^k mod 2) * 2^k
					return mul(app("mod", SInt, app("div", SInt, pr[0], tBig(n)), tInt(2)), tBig(new(big.Int).Lsh(big.NewInt(1), uint(k))))
				}
			}
		}
		if w := smallWidth(rt); w > 0 {
			return bitwise(w, a, b, func(x, y Term) Term { return and(x, y) })
		}
		return t.bitUF("and", rt, a, b)
	case token.OR:
		if w := smallWidth(rt); w > 0 {
			return bitwise(w, a, b, func(x, y Term) Term { return or(x, y) })
		}
		return t.bitUF("or", rt, a, b)
	case token.XOR:
		if w := smallWidth(rt); w > 0 {
			return bitwise(w, a, b, func(x, y Term) Term { return not(eq(x, y)) })
		}
		return t.bitUF("xor", rt, a, b)
	case token.AND_NOT:
		return t.bitUF("andnot", rt, a, b)
	default:
		t.unsup("binop %s", op)
		return c.fresh("binop", SInt)
	}
	if isUnsigned(rt) {
		return t.wrap(r, rt)
	}
	return r
}

// bitUF: uninterpreted bit operation with the result's type range (listed as an assumption).
func (t *Tr) bitUF(name string, rt types.Type, a, b Term) Term {
	f := t.c.declFun("bit."+name+"."+typeShort(rt), []Sort{SInt, SInt}, SInt)
	r := app(f, SInt, a, b)
	t.c.fact(t.c.typeFact(rt, r))
	t.note("bit operation %s on %s is uninterpreted (range axiom only)", name, typeShort(rt))
	return r
}

func (t *Tr) convert(x *ssa.Convert) {
	c := t.c
	from, to := x.X.Type(), x.Type()
	if sv, ok := t.vals[x.X]; ok && sv.Loc != nil {
		// pointer casts through unsafe.Pointer keep denoting the same location
		_, fp := from.Underlying().(*types.Pointer)
		_, tp := to.Underlying().(*types.Pointer)
		fb, fu := from.Underlying().(*types.Basic)
		tb, tu := to.Underlying().(*types.Basic)
		if (fp || (fu && fb.Kind() == types.UnsafePointer)) && (tp || (tu && tb.Kind() == types.UnsafePointer)) {
			t.vals[x] = sv
			return
		}
	}
	v := t.term(x.X)
	fs, ts := c.sortOf(from), c.sortOf(to)
	switch {
	case fs == SInt && ts == SInt:
		flo, fhi, fok := intRange(from)
		tlo, thi, tok := intRange(to)
		if fok && tok && flo.Cmp(tlo) >= 0 && fhi.Cmp(thi) <= 0 {
			t.vals[x] = &Val{T: v, KnownLen: -1} // widening
			return
		}
		if tok {
			t.define(x, &Val{T: t.wrap(v, to), KnownLen: -1})
			return
		}
		t.vals[x] = &Val{T: v, KnownLen: -1} // pointer <-> uintptr etc.
	case fs == SSlice && ts == SStr:
		// string(bytes): a function of the bytes
		comp := t.regElem(from.Underlying().(*types.Slice).Elem())
		f := c.declFun("str.of.bytes", []Sort{arrSort(SInt, SInt), SInt, SInt}, SStr)
		r := app(f, SStr, sel(c.get(t.curSt, comp), sArr(v)), sOff(v), sLen(v))
		nm := c.declConst(x.Name(), SStr)
		c.assert(eq(nm, r))
		c.assert(eq(app("str.len", SInt, nm), sLen(v)))
		t.vals[x] = &Val{T: nm, KnownLen: -1}
	case fs == SStr && ts == SSlice:
		// []byte(s): fresh array holding the characters of s
		elem := to.Underlying().(*types.Slice).Elem()
		comp := t.regElem(elem)
		arr := t.newRef(t.curSt)
		f := c.declFun("bytes.of.str", []Sort{SStr}, arrSort(SInt, SInt))
		t.c.set(t.curSt, comp, store(c.get(t.curSt, comp), arr, app(f, arrSort(SInt, SInt), v)))
		n := app("str.len", SInt, v)
		t.define(x, &Val{T: mkSlice(arr, tInt(0), n, n), KnownLen: -1})
		// round trip axiom instance
		g := c.declFun("str.of.bytes", []Sort{arrSort(SInt, SInt), SInt, SInt}, SStr)
		c.fact(eq(app(g, SStr, app(f, arrSort(SInt, SInt), v), tInt(0), n), v))
	case fs == SInt && ts == SReal:
		t.define(x, &Val{T: app("to_real", SReal, v), KnownLen: -1})
	case fs == SReal && ts == SInt:
		r := t.havocVal(x.Name(), to)
		t.vals[x] = r
	case fs == ts:
		t.vals[x] = &Val{T: v, KnownLen: -1}
	case fs == SInt && ts == SStr:
		t.vals[x] = t.havocVal(x.Name(), to)
	default:
		t.unsup("convert %s -> %s", from, to)
		t.vals[x] = t.havocVal(x.Name(), to)
	}
}

func (t *Tr) typeTag(typ types.Type) Term {
	c := t.c.declConst("type:"+typeShort(typ), SInt)
	return c
}

func (t *Tr) dynType(i Term) Term {
	f := t.c.declFun("dyntype", []Sort{SInt}, SInt)
	return app(f, SInt, i)
}

func (t *Tr) payload(i Term, s Sort) Term {
	f := t.c.declFun("payload:"+string(s), []Sort{SInt}, s)
	return app(f, s, i)
}

var typeTags = map[string]int{}

func (t *Tr) tagFact(typ types.Type) Term {
	// distinct concrete types have distinct tags: give each a distinct integer literal
	k := typeShort(typ)
	n, ok := typeTags[k]
	if !ok {
		n = len(typeTags) + 1
		typeTags[k] = n
	}
	return tInt(int64(n))
}

func (t *Tr) makeInterface(x *ssa.MakeInterface) {
	c := t.c
	v := t.term(x.X)
	// interface values are built by an injective function of (type, payload)
	s := c.sortOf(x.X.Type())
	f := c.declFun("mkiface:"+typeShort(x.X.Type()), []Sort{s}, SInt)
	i := app(f, SInt, v)
	nm := c.declConst(x.Name(), SInt)
	c.assert(eq(nm, i))
	c.fact(lt(tInt(0), nm))
	c.fact(eq(t.dynType(nm), t.tagFact(x.X.Type())))
	c.fact(eq(t.payload(nm, s), v))
	t.vals[x] = &Val{T: nm, KnownLen: -1}
}

func (t *Tr) typeAssert(x *ssa.TypeAssert) {
	c := t.c
	i := t.term(x.X)
	_, isIface := x.AssertedType.Underlying().(*types.Interface)
	var ok, val Term
	if isIface {
		okc := c.fresh(x.Name()+".ok", SBool)
		c.assert(implies(okc, not(eq(i, tInt(0)))))
		ok, val = okc, i
	} else {
		s := c.sortOf(x.AssertedType)
		ok = and(not(eq(i, tInt(0))), eq(t.dynType(i), t.tagFact(x.AssertedType)))
		val = t.payload(i, s)
		nm := c.declConst(x.Name()+".v", s)
		c.assert(eq(nm, val))
		c.fact(c.typeFact(x.AssertedType, nm))
		t.allocFact(t.curSt, x.AssertedType, nm)
		val = nm
	}
	if x.CommaOk {
		okn := c.declConst(x.Name()+".ok", SBool)
		c.assert(eq(okn, ok))
		zero := c.zero(x.AssertedType)
		t.vals[x] = &Val{KnownLen: -1, Tup: []*Val{{T: ite(okn, val, zero), KnownLen: -1}, {T: okn, KnownLen: -1}}}
		return
	}
	t.safetyObl("assert-type", x.Pos(), ok, "type assertion "+x.X.Name()+".("+typeShort(x.AssertedType)+")")
	t.vals[x] = &Val{T: val, KnownLen: -1}
}

func (t *Tr) sliceInstr(x *ssa.Slice) {
	c := t.c
	var lo, hi, mx Term
	get := func(v ssa.Value) (Term, bool) {
		if v == nil {
			return Term{}, false
		}
		return t.term(v), true
	}
	lo, hasLo := get(x.Low)
	hi, hasHi := get(x.High)
	mx, hasMax := get(x.Max)
	if !hasLo {
		lo = tInt(0)
	}
	switch u := x.X.Type().Underlying().(type) {
	case *types.Slice:
		s := t.term(x.X)
		if !hasHi {
			hi = sLen(s)
		}
		if !hasMax {
			mx = sCap(s)
		}
		t.safetyObl("slice", x.Pos(), and(le(tInt(0), lo), le(lo, hi), le(hi, mx), le(mx, sCap(s))),
			fmt.Sprintf("slice bounds in range: %s[%s:%s]", x.X.Name(), nameOf(x.Low), nameOf(x.High)))
		r := mkSlice(sArr(s), add(sOff(s), lo), sub(hi, lo), sub(mx, lo))
		kl := -1
		t.define(x, &Val{T: r, KnownLen: kl})
	case *types.Basic: // string
		s := t.term(x.X)
		if !hasHi {
			hi = app("str.len", SInt, s)
		}
		t.safetyObl("slice", x.Pos(), and(le(tInt(0), lo), le(lo, hi), le(hi, app("str.len", SInt, s))), "string slice bounds in range")
		t.define(x, &Val{T: app("str.substr", SStr, s, lo, sub(hi, lo)), KnownLen: -1})
	case *types.Pointer: // pointer to array
		at := u.Elem().Underlying().(*types.Array)
		base := t.val(x.X)
		n := tInt(at.Len())
		if !hasHi {
			hi = n
		}
		if !hasMax {
			mx = n
		}
		t.safetyObl("slice", x.Pos(), and(le(tInt(0), lo), le(lo, hi), le(hi, mx), le(mx, n)), "array slice bounds in range")
		if base.Loc != nil && base.Loc.Kind == "arr" {
			kl := -1
			if !hasLo && x.High == nil {
				kl = int(at.Len())
			}
			t.define(x, &Val{T: mkSlice(base.Loc.Idx, lo, sub(hi, lo), sub(mx, lo)), KnownLen: kl})
			return
		}
		t.unsup("slice of pointer to array value")
		v := t.havocVal(x.Name(), x.Type())
		c.assert(eq(sLen(v.T), sub(hi, lo)))
		t.vals[x] = v
	default:
		t.unsup("slice of %s", x.X.Type())
		t.vals[x] = t.havocVal(x.Name(), x.Type())
	}
}

func nameOf(v ssa.Value) string {
	if v == nil {
		return ""
	}
	return v.Name()
}

func (t *Tr) regMap(mt types.Type) {
	m := mt.Underlying().(*types.Map)
	ks, vs := t.c.sortOf(m.Key()), t.c.sortOf(m.Elem())
	t.c.regComp(compMapDom(mt), arrSort(SInt, arrSort(ks, SBool)))
	t.c.regComp(compMapVal(mt), arrSort(SInt, arrSort(ks, vs)))
	t.c.regComp(compMapLen(mt), arrSort(SInt, SInt))
}

func (t *Tr) mapHas(st *State, mt types.Type, m, k Term) Term {
	return and(not(eq(m, tInt(0))), sel(sel(t.c.get(st, compMapDom(mt)), m), k))
}

func (t *Tr) lookup(x *ssa.Lookup) {
	c := t.c
	st := t.curSt
	if _, isStr := x.X.Type().Underlying().(*types.Basic); isStr {
		s := t.term(x.X)
		idx := t.term(x.Index)
		t.safetyObl("index", x.Pos(), and(le(tInt(0), idx), lt(idx, app("str.len", SInt, s))), "string index in range")
		r := c.declConst(x.Name(), SInt)
		c.assert(eq(r, app("str.to_code", SInt, app("str.at", SStr, s, idx))))
		c.fact(implies(and(le(tInt(0), idx), lt(idx, app("str.len", SInt, s))), and(le(tInt(0), r), le(r, tInt(255)))))
		t.vals[x] = &Val{T: r, KnownLen: -1}
		return
	}
	mt := x.X.Type()
	t.regMap(mt)
	m := t.term(x.X)
	k := t.term(x.Index)
	has := t.mapHas(st, mt, m, k)
	elem := mt.Underlying().(*types.Map).Elem()
	v := ite(has, sel(sel(c.get(st, compMapVal(mt)), m), k), c.zero(elem))
	nm := c.declConst(x.Name()+".v", v.Sort)
	c.assert(eq(nm, v))
	c.fact(c.typeFact(elem, nm))
	t.allocFact(st, elem, nm)
	if x.CommaOk {
		okn := c.declConst(x.Name()+".ok", SBool)
		c.assert(eq(okn, has))
		t.vals[x] = &Val{KnownLen: -1, Tup: []*Val{{T: nm, KnownLen: -1}, {T: okn, KnownLen: -1}}}
		return
	}
	t.vals[x] = &Val{T: nm, KnownLen: -1}
}

func (t *Tr) mapUpdate(x *ssa.MapUpdate) {
	c := t.c
	st := t.curSt
	mt := x.Map.Type()
	t.regMap(mt)
	m := t.term(x.Map)
	k := t.term(x.Key)
	v := t.term(x.Value)
	t.safetyObl("nil", x.Pos(), not(eq(m, tInt(0))), "assignment to entry in nil map")
	dom, val, ln := c.get(st, compMapDom(mt)), c.get(st, compMapVal(mt)), c.get(st, compMapLen(mt))
	had := sel(sel(dom, m), k)
	t.c.set(st, compMapLen(mt), store(ln, m, ite(had, sel(ln, m), add(sel(ln, m), tInt(1)))))
	t.c.set(st, compMapDom(mt), store(dom, m, store(sel(dom, m), k, tTrue)))
	t.c.set(st, compMapVal(mt), store(val, m, store(sel(val, m), k, v)))
}

// compVisited: the component holding the set of keys a map range loop has produced so far.
func compVisited(fn *ssa.Function, r *ssa.Range) string {
	return "VIS:" + funcKey(fn) + ":" + r.Name()
}

// rangeStart: a range over a map begins with an empty visited set; the map's domain at that moment is remembered.
func (t *Tr) rangeStart(x *ssa.Range) {
	mm, ok := x.X.Type().Underlying().(*types.Map)
	if !ok {
		return
	}
	c := t.c
	mt := x.X.Type()
	t.regMap(mt)
	ks := c.sortOf(mm.Key())
	vc := compVisited(t.fn, x)
	c.regComp(vc, arrSort(ks, SBool))
	c.set(t.curSt, vc, Term{fmt.Sprintf("((as const %s) false)", arrSort(ks, SBool)), arrSort(ks, SBool)})
	if t.rangeDom0 == nil {
		t.rangeDom0 = map[*ssa.Range]Term{}
	}
	d0 := c.fresh("rangedom", arrSort(ks, SBool))
	c.assert(eq(d0, sel(c.get(t.curSt, compMapDom(mt)), t.term(x.X))))
	t.rangeDom0[x] = d0
	t.trusted["map range in "+funcKey(t.fn)+": a key is produced at most once and every key present from start to end is produced (no key is deleted and re-inserted while the loop runs)"] = true
}

func (t *Tr) next(x *ssa.Next) {
	c := t.c
	st := t.curSt
	tup := x.Type().(*types.Tuple)
	ok := c.fresh(x.Name()+".ok", SBool)
	if x.IsString {
		v := &Val{KnownLen: -1, Tup: []*Val{{T: ok, KnownLen: -1}, t.havocVal(x.Name()+".k", tup.At(1).Type()), t.havocVal(x.Name()+".v", tup.At(2).Type())}}
		t.vals[x] = v
		return
	}
	rng := x.Iter.(*ssa.Range)
	mt := rng.X.Type()
	t.regMap(mt)
	m := t.term(rng.X)
	mm := mt.Underlying().(*types.Map)
	var kv, vv *Val
	if _, isInvalid := tup.At(1).Type().(*types.Basic); isInvalid && tup.At(1).Type().(*types.Basic).Kind() == types.Invalid {
		kv = &Val{T: c.fresh(x.Name()+".k", c.sortOf(mm.Key())), KnownLen: -1}
	} else {
		kv = t.havocVal(x.Name()+".k", mm.Key())
	}
	c.assert(implies(ok, t.mapHas(st, mt, m, kv.T)))
	// the keys this range loop has produced so far (spec function visited(k) in the loop's invariants): a key is
	// produced at most once; when the iteration ends every key that was in the map when it began and still is there
	// has been produced (Go: an entry removed before it is reached is not produced; for an entry ADDED during the
	// iteration nothing is claimed)
	if vc := compVisited(t.fn, rng); t.c.compSort[vc] != "" {
		vis := c.get(st, vc)
		c.assert(implies(ok, not(sel(vis, kv.T))))
		c.set(st, vc, ite(ok, store(vis, kv.T, tTrue), vis))
		if d0, has := t.rangeDom0[rng]; has {
			q := sym("q!vk")
			domNow := sel(c.get(st, compMapDom(mt)), m)
			c.assert(implies(not(ok), Term{fmt.Sprintf("(forall ((%s %s)) (! (=> (and (select %s %s) (select %s %s)) (select %s %s)) :pattern ((select %s %s)) :pattern ((select %s %s))))",
				q, c.sortOf(mm.Key()), d0.S, q, domNow.S, q, vis.S, q, vis.S, q, domNow.S, q), SBool}))
		}
	}
	val := sel(sel(c.get(st, compMapVal(mt)), m), kv.T)
	vn := c.fresh(x.Name()+".v", val.Sort)
	c.assert(eq(vn, val))
	c.fact(c.typeFact(mm.Elem(), vn))
	t.allocFact(st, mm.Elem(), vn)
	vv = &Val{T: vn, KnownLen: -1}
	t.vals[x] = &Val{KnownLen: -1, Tup: []*Val{{T: ok, KnownLen: -1}, kv, vv}}
}

func (t *Tr) selectInstr(x *ssa.Select) {
	c := t.c
	for _, st := range x.States {
		if st.Dir == types.SendOnly {
			// (the obligation is stated for the case that this send is the one taken)
			t.pseudoCall(st.Chan, st.Send, st.Pos)
			// "selectsend.<channel variable>"(chan, value, the channels of the select's receive cases in source
			// order): lets a clause say which channels a blocked hand-over keeps watching
			args := []ssa.Value{st.Chan, st.Send}
			for _, o := range x.States {
				if o.Dir == types.RecvOnly {
					args = append(args, o.Chan)
				}
			}
			t.pseudoCallNamed("selectsend."+chanName(st.Chan), args, st.Pos)
		}
	}
	tup := x.Type().(*types.Tuple)
	idx := c.fresh(x.Name()+".idx", SInt)
	lo := int64(0)
	if !x.Blocking {
		lo = -1
	}
	c.assert(and(le(tInt(lo), idx), lt(idx, tInt(int64(len(x.States))))))
	v := &Val{KnownLen: -1}
	v.Tup = append(v.Tup, &Val{T: idx, KnownLen: -1}, t.havocVal(x.Name()+".ok", tup.At(1).Type()))
	for i := 2; i < tup.Len(); i++ {
		r := t.havocVal(fmt.Sprintf("%s.r%d", x.Name(), i), tup.At(i).Type())
		t.allocFact(t.curSt, tup.At(i).Type(), r.T)
		v.Tup = append(v.Tup, r)
	}
	t.vals[x] = v
}

func (t *Tr) panicInstr(x *ssa.Panic) {
	reach := t.reach[t.curBlk]
	// an explicit panic is a pseudo-call panic(value): a clause "call panic requires c" says under which condition
	// (over the locals at that point) the function may give up; it takes the place of "unreachable"
	nObl := len(t.obls)
	t.pseudoCallNamed("panic", []ssa.Value{x.X}, x.Pos())
	if len(t.obls) > nObl {
		return
	}
	if t.ct != nil && len(t.ct.Panics) > 0 {
		env := t.entryEnv(t.entrySt)
		var ds []Term
		for _, p := range t.ct.Panics {
			g, err := env.boolExpr(p.E)
			if err != nil {
				t.unsup("panics when: %v", err)
				continue
			}
			ds = append(ds, g)
		}
		t.addObl("panic", "", x.Pos(), reach, or(ds...), "explicit panic only under the declared condition")
		return
	}
	if t.safety() {
		t.addObl("panic", "", x.Pos(), reach, tFalse, "explicit panic is unreachable")
	}
}

// smallWidth: bit width of an unsigned type of at most 16 bits (0 otherwise).
func smallWidth(t types.Type) int {
	b, ok := types.Unalias(t).Underlying().(*types.Basic)
	if !ok {
		return 0
	}
	switch b.Kind() {
	case types.Uint8:
		return 8
	case types.Uint16:
		return 16
	}
	return 0
}

// bitwise: exact bit-by-bit encoding of a binary bit operation on w-bit unsigned values.
func bitwise(w int, a, b Term, op func(x, y Term) Term) Term {
	var parts []Term
	for k := 0; k < w; k++ {
		p := tBig(new(big.Int).Lsh(big.NewInt(1), uint(k)))
		ba := eq(app("mod", SInt, app("div", SInt, a, p), tInt(2)), tInt(1))
		bb := eq(app("mod", SInt, app("div", SInt, b, p), tInt(2)), tInt(1))
		parts = append(parts, ite(op(ba, bb), p, tInt(0)))
	}
	return app("+", SInt, parts...)
}
