package main

import (
	"fmt"
	"strings"
	"go/constant"
	"go/token"
	"go/types"
	"math/big"

	"golang.org/x/tools/go/ssa"
)

type libModel func(t *Tr, instr ssa.Instruction, cc *ssa.CallCommon, pos token.Pos) (*Val, bool)

var libModels map[string]libModel

func init() {
	libModels = map[string]libModel{
		"bytes.Equal": func(t *Tr, instr ssa.Instruction, cc *ssa.CallCommon, pos token.Pos) (*Val, bool) {
			a, b := t.term(cc.Args[0]), t.term(cc.Args[1])
			t.trusted["model of bytes.Equal (equal length and equal bytes)"] = true
			r := t.c.fresh("bytesEqual", SBool)
			t.c.assert(eq(r, t.bytesEqual(t.curSt, a, b)))
			return &Val{T: r, KnownLen: -1}, true
		},
		"(encoding/binary.bigEndian).Uint16": beRead(2),
		"(encoding/binary.bigEndian).Uint32": beRead(4),
		"(encoding/binary.bigEndian).Uint64": beRead(8),
		"(encoding/binary.bigEndian).PutUint16": bePut(2),
		"(encoding/binary.bigEndian).PutUint32": bePut(4),
		"(encoding/binary.bigEndian).PutUint64": bePut(8),
		"hash/crc32.Checksum": func(t *Tr, instr ssa.Instruction, cc *ssa.CallCommon, pos token.Pos) (*Val, bool) {
			a := t.term(cc.Args[0])
			t.trusted["hash/crc32.Checksum is a function of the bytes (uninterpreted)"] = true
			r := t.crc(t.curSt, a, tInt(0))
			return &Val{T: r, KnownLen: -1}, true
		},
		"fmt.Sprintf":      sprintfModel,
		"sort.SliceStable": sortModel,
		"sort.Slice":       sortModel,
		"sync/atomic.LoadPointer":  atomicLoad,
		"sync/atomic.StorePointer": atomicStore,
		"sync/atomic.CompareAndSwapPointer": func(t *Tr, instr ssa.Instruction, cc *ssa.CallCommon, pos token.Pos) (*Val, bool) {
			l := t.locOf(cc.Args[0])
			t.trusted["sync/atomic operations are plain reads/writes (no interleaving semantics)"] = true
			cur := t.c.locRead(t.curSt, l)
			old, nw := t.term(cc.Args[1]), t.term(cc.Args[2])
			ok := t.c.fresh("cas", SBool)
			t.c.assert(eq(ok, eq(cur, old)))
			t.c.locWrite(t.curSt, l, ite(ok, nw, cur))
			return &Val{T: ok, KnownLen: -1}, true
		},
		"sync/atomic.LoadInt64":  atomicLoad,
		"sync/atomic.LoadInt32":  atomicLoad,
		"sync/atomic.LoadUint64": atomicLoad,
		"sync/atomic.LoadUint32": atomicLoad,
		"sync/atomic.StoreInt64": atomicStore,
		"sync/atomic.StoreInt32": atomicStore,
		"sync/atomic.StoreUint64": atomicStore,
		"sync/atomic.StoreUint32": atomicStore,
		"sync/atomic.AddInt64":   atomicAdd,
		"sync/atomic.AddInt32":   atomicAdd,
		"sync/atomic.AddUint64":  atomicAdd,
		"sync/atomic.AddUint32":  atomicAdd,
	}
}

func atomicLoad(t *Tr, instr ssa.Instruction, cc *ssa.CallCommon, pos token.Pos) (*Val, bool) {
	l := t.locOf(cc.Args[0])
	t.trusted["sync/atomic operations are plain reads/writes (no interleaving semantics)"] = true
	v := t.c.locRead(t.curSt, l)
	t.c.fact(t.c.typeFact(l.valueType(), v))
	return &Val{T: v, KnownLen: -1}, true
}
func atomicStore(t *Tr, instr ssa.Instruction, cc *ssa.CallCommon, pos token.Pos) (*Val, bool) {
	l := t.locOf(cc.Args[0])
	t.trusted["sync/atomic operations are plain reads/writes (no interleaving semantics)"] = true
	t.c.locWrite(t.curSt, l, t.term(cc.Args[1]))
	return nil, true
}
func atomicAdd(t *Tr, instr ssa.Instruction, cc *ssa.CallCommon, pos token.Pos) (*Val, bool) {
	l := t.locOf(cc.Args[0])
	t.trusted["sync/atomic operations are plain reads/writes (no interleaving semantics)"] = true
	nv := add(t.c.locRead(t.curSt, l), t.term(cc.Args[1]))
	if isUnsigned(l.valueType()) {
		nv = t.wrap(nv, l.valueType())
	}
	t.c.locWrite(t.curSt, l, nv)
	return &Val{T: nv, KnownLen: -1}, true
}

func beRead(n int) libModel {
	return func(t *Tr, instr ssa.Instruction, cc *ssa.CallCommon, pos token.Pos) (*Val, bool) {
		s := t.term(cc.Args[len(cc.Args)-1])
		t.trusted["model of encoding/binary.BigEndian (big-endian polynomial of the bytes; panics if the slice is too short)"] = true
		t.safetyObl("index", pos, le(tInt(int64(n)), sLen(s)), fmt.Sprintf("binary.BigEndian.Uint%d needs %d bytes", n*8, n))
		v := t.bigEndian(t.curSt, s, tInt(0), n)
		nm := "be"
		if vv, ok := instr.(ssa.Value); ok {
			nm = vv.Name()
		}
		r := t.c.declConst(nm, SInt)
		t.c.assert(eq(r, v))
		lim := new(big.Int).Sub(new(big.Int).Lsh(big.NewInt(1), uint(8*n)), big.NewInt(1))
		t.c.fact(and(le(tInt(0), r), le(r, tBig(lim))))
		return &Val{T: r, KnownLen: -1}, true
	}
}

func bePut(n int) libModel {
	return func(t *Tr, instr ssa.Instruction, cc *ssa.CallCommon, pos token.Pos) (*Val, bool) {
		c := t.c
		st := t.curSt
		s := t.term(cc.Args[len(cc.Args)-2])
		v := t.term(cc.Args[len(cc.Args)-1])
		t.trusted["model of encoding/binary.BigEndian (big-endian polynomial of the bytes; panics if the slice is too short)"] = true
		t.safetyObl("index", pos, le(tInt(int64(n)), sLen(s)), fmt.Sprintf("binary.BigEndian.PutUint%d needs %d bytes", n*8, n))
		comp := t.regElem(types.Typ[types.Byte])
		mem := c.get(st, comp)
		arr := sel(mem, sArr(s))
		for i := 0; i < n; i++ {
			shift := new(big.Int).Lsh(big.NewInt(1), uint(8*(n-1-i)))
			b := app("mod", SInt, app("div", SInt, v, tBig(shift)), tInt(256))
			arr = store(arr, add(sOff(s), tInt(int64(i))), b)
		}
		t.c.set(st, comp, store(mem, sArr(s), arr))
		return nil, true
	}
}

// bigEndian: the n-byte big-endian number at s[i:].
func (t *Tr) bigEndian(st *State, s, i Term, n int) Term {
	c := t.c
	comp := t.regElem(types.Typ[types.Byte])
	arr := sel(c.get(st, comp), sArr(s))
	var parts []Term
	for k := 0; k < n; k++ {
		b := sel(arr, add(add(sOff(s), i), tInt(int64(k))))
		if !boundTerm(b.S) {
			c.fact(and(le(tInt(0), b), le(b, tInt(255))))
		} // (under bound variables the range follows from the byte-range axiom of the memory version)
		shift := new(big.Int).Lsh(big.NewInt(1), uint(8*(n-1-k)))
		parts = append(parts, mul(b, tBig(shift)))
	}
	return app("+", SInt, parts...)
}

// bytesEqual: same length and same bytes.
func (t *Tr) bytesEqual(st *State, a, b Term) Term {
	c := t.c
	comp := t.regElem(types.Typ[types.Byte])
	mem := c.get(st, comp)
	q := sym("q!j")
	A, B := sel(mem, sArr(a)), sel(mem, sArr(b))
	all := Term{fmt.Sprintf("(forall ((%s Int)) (! (=> (and (<= %s %s) (< %s (+ %s %s))) (= (select %s %s) (select %s (+ %s (- %s %s))))) :pattern ((select %s %s))))",
		q, sOff(a).S, q, q, sOff(a).S, sLen(a).S, A.S, q, B.S, sOff(b).S, q, sOff(a).S, A.S, q), SBool}
	return and(eq(sLen(a), sLen(b)), all)
}

// crc: checksum as an uninterpreted function of the byte sequence. The sequence is abstracted
// by (array contents, offset, length); extensionality over the window is an axiom instance
// supplied where needed (crcSame).
func (t *Tr) crc(st *State, s Term, tab Term) Term {
	c := t.c
	comp := t.regElem(types.Typ[types.Byte])
	f := c.declFun("crc32c", []Sort{arrSort(SInt, SInt), SInt, SInt}, SInt)
	r := app(f, SInt, sel(c.get(st, comp), sArr(s)), sOff(s), sLen(s))
	c.fact(and(le(tInt(0), r), le(r, tInt(4294967295))))
	return r
}

// ---------------------------------------------------------------------------
// frozen globals: only stored in init, and the loaded value is only read

func (m *ModSets) frozenOK(gi *GlobalInv) bool {
	if v, ok := m.frozen[gi.Pkg+"."+gi.Global]; ok {
		return v
	}
	if m.frozen == nil {
		m.frozen = map[string]bool{}
	}
	ok := m.checkFrozen(gi.Pkg, gi.Global)
	m.frozen[gi.Pkg+"."+gi.Global] = ok
	return ok
}

func (m *ModSets) checkFrozen(pkg, name string) bool {
	sp := m.w.SPkgs[pkg]
	if sp == nil {
		return false
	}
	g, ok := sp.Members[name].(*ssa.Global)
	if !ok {
		return false
	}
	for _, fn := range m.w.AllFn {
		isInit := fn.Name() == "init" && fn.Pkg == sp
		for _, b := range fn.Blocks {
			for _, in := range b.Instrs {
				var ops []*ssa.Value
				ops = in.Operands(ops)
				uses := false
				for _, op := range ops {
					if op != nil && *op == ssa.Value(g) {
						uses = true
					}
				}
				if !uses {
					continue
				}
				switch x := in.(type) {
				case *ssa.Store:
					if !isInit {
						return false
					}
				case *ssa.UnOp:
					switch deref(g.Type()).Underlying().(type) {
					case *types.Slice, *types.Map, *types.Pointer:
						if !isInit && !readOnlyUses(x, 0) {
							return false
						}
					}
				case *ssa.DebugRef:
				default:
					return false
				}
			}
		}
	}
	return true
}

// readOnlyUses: every use of v only reads the memory v refers to.
func readOnlyUses(v ssa.Value, depth int) bool {
	if depth > 4 {
		return false
	}
	refs := v.Referrers()
	if refs == nil {
		return false
	}
	for _, in := range *refs {
		switch x := in.(type) {
		case *ssa.DebugRef:
		case *ssa.Slice:
			if !readOnlyUses(x, depth+1) {
				return false
			}
		case *ssa.IndexAddr:
			rr := x.Referrers()
			if rr == nil {
				return false
			}
			for _, u := range *rr {
				if uo, ok := u.(*ssa.UnOp); !ok || uo.Op != token.MUL {
					if _, isDbg := u.(*ssa.DebugRef); !isDbg {
						return false
					}
				}
			}
		case *ssa.Call:
			cc := x.Common()
			if b, ok := cc.Value.(*ssa.Builtin); ok {
				switch b.Name() {
				case "len", "cap":
					continue
				case "copy", "append":
					if len(cc.Args) > 1 && cc.Args[0] != v {
						continue
					}
				}
				return false
			}
			if !pureLibCall(cc) {
				return false
			}
		case *ssa.BinOp, *ssa.Phi:
			// comparison / merge: conservative for phi
			if _, isPhi := x.(*ssa.Phi); isPhi {
				return false
			}
		default:
			return false
		}
	}
	return true
}

// sortModel: sort.Slice / sort.SliceStable permute the elements of the slice held by their first argument.
func sortModel(t *Tr, instr ssa.Instruction, cc *ssa.CallCommon, pos token.Pos) (*Val, bool) {
	mi, ok := cc.Args[0].(*ssa.MakeInterface)
	if !ok {
		return nil, false
	}
	sl, ok := mi.X.Type().Underlying().(*types.Slice)
	if !ok {
		return nil, false
	}
	c := t.c
	st := t.curSt
	s := t.term(mi.X)
	comp := t.regElem(sl.Elem())
	mem := c.get(st, comp)
	old := sel(mem, sArr(s))
	nw := c.fresh("sorted", old.Sort)
	q, r := sym("q!i"), sym("q!j")
	// every element of the result is an element of the input, and the other way round; nothing outside the window changes
	c.assert(Term{fmt.Sprintf("(forall ((%s Int)) (! (=> (and (<= %s %s) (< %s (+ %s %s))) (exists ((%s Int)) (and (<= %s %s) (< %s (+ %s %s)) (= (select %s %s) (select %s %s))))) :pattern ((select %s %s))))",
		q, sOff(s).S, q, q, sOff(s).S, sLen(s).S, r, sOff(s).S, r, r, sOff(s).S, sLen(s).S, nw.S, q, old.S, r, nw.S, q), SBool})
	c.assert(Term{fmt.Sprintf("(forall ((%s Int)) (! (=> (and (<= %s %s) (< %s (+ %s %s))) (exists ((%s Int)) (and (<= %s %s) (< %s (+ %s %s)) (= (select %s %s) (select %s %s))))) :pattern ((select %s %s))))",
		q, sOff(s).S, q, q, sOff(s).S, sLen(s).S, r, sOff(s).S, r, r, sOff(s).S, sLen(s).S, old.S, q, nw.S, r, old.S, q), SBool})
	c.assert(Term{fmt.Sprintf("(forall ((%s Int)) (! (=> (or (< %s %s) (>= %s (+ %s %s))) (= (select %s %s) (select %s %s))) :pattern ((select %s %s))))",
		q, q, sOff(s).S, q, sOff(s).S, sLen(s).S, nw.S, q, old.S, q, nw.S, q), SBool})
	t.c.set(st, comp, store(mem, sArr(s), nw))
	t.trusted["sort.Slice/SliceStable permute the slice (the comparison closure is not interpreted)"] = true
	return nil, true
}

// sprintfModel: fmt.Sprintf with a constant format made of literal text, %s applied to strings and %d applied
// to integers is the concatenation of the pieces (decimal rendering by str.from_int). Anything else is left to
// the generic treatment of library calls (unconstrained result).
func sprintfModel(t *Tr, instr ssa.Instruction, cc *ssa.CallCommon, pos token.Pos) (*Val, bool) {
	if len(cc.Args) != 2 {
		return nil, false
	}
	fc, ok := cc.Args[0].(*ssa.Const)
	if !ok || fc.Value == nil || fc.Value.Kind() != constant.String {
		return nil, false
	}
	format := constant.StringVal(fc.Value)
	var args []ssa.Value
	switch sl := cc.Args[1].(type) {
	case *ssa.Const: // nil slice: no arguments
	case *ssa.Slice:
		al, ok := sl.X.(*ssa.Alloc)
		if !ok || al.Referrers() == nil {
			return nil, false
		}
		arr, ok := deref(al.Type()).Underlying().(*types.Array)
		if !ok {
			return nil, false
		}
		args = make([]ssa.Value, arr.Len())
		for _, r := range *al.Referrers() {
			ia, ok := r.(*ssa.IndexAddr)
			if !ok {
				continue
			}
			ic, ok := ia.Index.(*ssa.Const)
			if !ok || ia.Referrers() == nil {
				return nil, false
			}
			i := int(ic.Int64())
			for _, rr := range *ia.Referrers() {
				if st, ok := rr.(*ssa.Store); ok && st.Addr == ia {
					if mi, ok := st.Val.(*ssa.MakeInterface); ok && i < len(args) {
						args[i] = mi.X
					}
				}
			}
		}
	default:
		return nil, false
	}
	var parts []Term
	lit := ""
	ai := 0
	flush := func() {
		if lit != "" {
			parts = append(parts, smtString(lit))
			lit = ""
		}
	}
	for i := 0; i < len(format); i++ {
		ch := format[i]
		if ch != '%' {
			lit += string(ch)
			continue
		}
		if i+1 >= len(format) {
			return nil, false
		}
		i++
		switch format[i] {
		case '%':
			lit += "%"
		case 's':
			if ai >= len(args) || args[ai] == nil || t.c.sortOf(args[ai].Type()) != SStr {
				return nil, false
			}
			flush()
			parts = append(parts, t.term(args[ai]))
			ai++
		case 'd':
			if ai >= len(args) || args[ai] == nil || t.c.sortOf(args[ai].Type()) != SInt {
				return nil, false
			}
			if b, ok := types.Unalias(args[ai].Type()).Underlying().(*types.Basic); !ok || b.Info()&types.IsInteger == 0 {
				return nil, false
			}
			flush()
			v := t.term(args[ai])
			parts = append(parts, ite(lt(v, tInt(0)), app("str.++", SStr, smtString("-"), app("str.from_int", SStr, sub(tInt(0), v))), app("str.from_int", SStr, v)))
			ai++
		default:
			return nil, false
		}
	}
	flush()
	if ai != len(args) {
		return nil, false
	}
	var r Term
	switch len(parts) {
	case 0:
		r = smtString("")
	case 1:
		r = parts[0]
	default:
		r = app("str.++", SStr, parts...)
	}
	t.trusted["model of fmt.Sprintf for constant formats made of literal text, %s (strings) and %d (integers): concatenation with decimal rendering"] = true
	nm := t.c.fresh("sprintf", SStr)
	t.c.assert(eq(nm, r))
	return &Val{T: nm, KnownLen: -1}, true
}

// boundTerm: the term mentions a bound variable (quantifier variable, spec-function parameter or state parameter).
func boundTerm(s string) bool {
	return strings.Contains(s, "|q!") || strings.Contains(s, "|a!") || strings.Contains(s, "|$p:") || strings.Contains(s, "|l!")
}
