package main

import (
	"fmt"
	"go/types"
	"sort"
	"strings"
)

// State maps heap / ghost components to their current SMT term. A component that is
// absent still has its entry value (the constant <comp>@0).
type State struct {
	comps map[string]Term
	param bool            // components are formal parameters of a spec function being defined
	used  map[string]bool // (param) components referenced
}

func newState() *State { return &State{comps: map[string]Term{}} }

func (s *State) clone() *State {
	n := newState()
	for k, v := range s.comps {
		n.comps[k] = v
	}
	return n
}

// component naming ----------------------------------------------------------

func compField(t types.Type, field string) string { return "F:" + typeShort(t) + "." + field }
func compElem(elem types.Type) string             { return "E:" + typeShort(elem) }
func compOpaque(t types.Type) string              { return "P:" + typeShort(t) }
func compGlobal(pkg, name string) string          { return "G:" + pkg + "." + name }
func compMapDom(t types.Type) string              { return "MD:" + typeShort(t) }
func compMapVal(t types.Type) string              { return "MV:" + typeShort(t) }
func compMapLen(t types.Type) string              { return "ML:" + typeShort(t) }

const compAlloc = "$alloc"

func (c *Ctx) regComp(name string, s Sort) {
	if old, ok := c.compSort[name]; ok && old != s {
		panic(fmt.Sprintf("component %s registered with sorts %s and %s", name, old, s))
	}
	c.compSort[name] = s
}

// initial returns the entry-state constant of a component.
func (c *Ctx) initial(name string) Term {
	s, ok := c.compSort[name]
	if !ok {
		panic("unregistered component " + name)
	}
	t := c.declConst(name+"@0", s)
	c.byteRangeAxiom(name, t)
	return t
}

// byteRangeAxiom: every element of a byte memory is a byte. Stated once per unconstrained version (the entry
// state and havocked versions; versions built by stores inherit it from the stored, typed values).
func (c *Ctx) byteRangeAxiom(name string, t Term) {
	if name != "E:uint8" || c.byteAx[t.S] {
		return
	}
	if c.byteAx == nil {
		c.byteAx = map[string]bool{}
	}
	c.byteAx[t.S] = true
	c.assert(Term{fmt.Sprintf("(forall ((|q!a| Int) (|q!i| Int)) (! (and (<= 0 (select (select %s |q!a|) |q!i|)) (<= (select (select %s |q!a|) |q!i|) 255)) :pattern ((select (select %s |q!a|) |q!i|))))", t.S, t.S, t.S), SBool})
}

func (c *Ctx) get(st *State, name string) Term {
	if st.param {
		st.used[name] = true
		s, ok := c.compSort[name]
		if !ok {
			panic("unregistered component " + name)
		}
		return Term{sym("$p:" + name), s}
	}
	if t, ok := st.comps[name]; ok {
		return t
	}
	return c.initial(name)
}

// set updates a component; large terms are named so that later updates do not copy them.
func (c *Ctx) set(st *State, name string, t Term) {
	if len(t.S) > 160 {
		n := c.fresh(name, t.Sort)
		c.assert(eq(n, t))
		t = n
	}
	st.comps[name] = t
	if name != compAlloc {
		c.wm[t.S] = c.get(st, compAlloc)
	}
}

// watermark: an upper bound (allocation counter) for every reference stored in the given
// version of a component: the counter at the time of its last update.
func (c *Ctx) watermark(st *State, compTerm Term) Term {
	if w, ok := c.wm[compTerm.S]; ok {
		return w
	}
	if strings.HasSuffix(compTerm.S, "@0|") {
		return c.initial(compAlloc)
	}
	return c.get(st, compAlloc)
}

func (c *Ctx) havoc(st *State, name string) Term {
	s := c.compSort[name]
	t := c.fresh(name, s)
	st.comps[name] = t
	c.byteRangeAxiom(name, t)
	return t
}

// mergeStates builds the state at a join point: per component an ite chain over the
// incoming edges (edge conditions are mutually exclusive by construction).
func (c *Ctx) mergeStates(label string, edges []Term, states []*State) *State {
	if len(states) == 1 {
		return states[0].clone()
	}
	out := newState()
	names := map[string]bool{}
	for _, s := range states {
		for k := range s.comps {
			names[k] = true
		}
	}
	var ks []string
	for k := range names {
		ks = append(ks, k)
	}
	sort.Strings(ks)
	for _, k := range ks {
		first := c.get(states[0], k)
		same := true
		for _, s := range states[1:] {
			if c.get(s, k).S != first.S {
				same = false
				break
			}
		}
		if same {
			if _, isInit := states[0].comps[k]; isInit {
				out.comps[k] = first
			}
			continue
		}
		// ite chain, last one is the default
		t := c.get(states[len(states)-1], k)
		for i := len(states) - 2; i >= 0; i-- {
			t = ite(edges[i], c.get(states[i], k), t)
		}
		// name it to keep terms small
		nm := c.fresh(k+"@"+label, c.compSort[k])
		c.assert(eq(nm, t))
		out.comps[k] = nm
		if k != compAlloc {
			c.wm[nm.S] = c.get(out, compAlloc)
		}
	}
	return out
}

// Loc describes an addressable location (the translator-level meaning of a pointer
// that is not a plain reference to a heap struct).
type Loc struct {
	Kind string // field, elem, cell, global, opaque
	Comp string
	Idx  Term // field: object ref; elem: array id; opaque: pointer value
	Idx2 Term // elem: absolute index
	Typ  types.Type // type of the value stored at the base location (before Path)
	Path []int      // struct field path inside the stored value
	PTyp []types.Type // struct types along Path (PTyp[i] is the struct type that Path[i] indexes)
	Len  Term // for pointers to arrays living in element memory: number of elements (Kind == "arr")
}

func (l *Loc) String() string {
	return fmt.Sprintf("%s %s[%s,%s]%v", l.Kind, l.Comp, l.Idx.S, l.Idx2.S, l.Path)
}

// valueType is the Go type of the value the location holds (after Path).
func (l *Loc) valueType() types.Type {
	t := l.Typ
	for i, p := range l.Path {
		st := l.PTyp[i].Underlying().(*types.Struct)
		t = st.Field(p).Type()
	}
	return t
}

func (c *Ctx) locBaseRead(st *State, l *Loc) Term {
	switch l.Kind {
	case "field", "opaque":
		return sel(c.get(st, l.Comp), l.Idx)
	case "elem":
		return sel(sel(c.get(st, l.Comp), l.Idx), l.Idx2)
	case "cell", "global":
		return c.get(st, l.Comp)
	}
	panic("locBaseRead: " + l.Kind)
}

func (c *Ctx) locBaseWrite(st *State, l *Loc, v Term) {
	switch l.Kind {
	case "field", "opaque":
		c.set(st, l.Comp, store(c.get(st, l.Comp), l.Idx, v))
	case "elem":
		m := c.get(st, l.Comp)
		c.set(st, l.Comp, store(m, l.Idx, store(sel(m, l.Idx), l.Idx2, v)))
	case "cell", "global":
		c.set(st, l.Comp, v)
	default:
		panic("locBaseWrite: " + l.Kind)
	}
}

func (c *Ctx) locRead(st *State, l *Loc) Term {
	v := c.locBaseRead(st, l)
	for i, p := range l.Path {
		v = c.structField(l.PTyp[i], v, p)
	}
	return v
}

func (c *Ctx) locWrite(st *State, l *Loc, v Term) {
	if len(l.Path) == 0 {
		c.locBaseWrite(st, l, v)
		return
	}
	base := c.locBaseRead(st, l)
	c.locBaseWrite(st, l, c.updatePath(base, l.PTyp, l.Path, v))
}

// updatePath rebuilds a struct value with the field at path replaced.
func (c *Ctx) updatePath(base Term, ptyp []types.Type, path []int, v Term) Term {
	if len(path) == 0 {
		return v
	}
	t := ptyp[0]
	st := t.Underlying().(*types.Struct)
	var fs []Term
	for i := 0; i < st.NumFields(); i++ {
		f := c.structField(t, base, i)
		if i == path[0] {
			f = c.updatePath(f, ptyp[1:], path[1:], v)
		}
		fs = append(fs, f)
	}
	return c.mkStruct(t, fs)
}

// zero value of a Go type
func (c *Ctx) zero(t types.Type) Term {
	t = types.Unalias(t)
	switch u := t.Underlying().(type) {
	case *types.Basic:
		switch {
		case u.Info()&types.IsBoolean != 0:
			return tFalse
		case u.Info()&types.IsString != 0:
			return smtString("")
		case u.Info()&types.IsFloat != 0, u.Info()&types.IsComplex != 0:
			return Term{"0.0", SReal}
		}
		return tInt(0)
	case *types.Slice:
		return nilSlice
	case *types.Struct:
		var fs []Term
		for i := 0; i < u.NumFields(); i++ {
			fs = append(fs, c.zero(u.Field(i).Type()))
		}
		return c.mkStruct(t, fs)
	case *types.Array:
		es := c.sortOf(u.Elem())
		return Term{fmt.Sprintf("((as const %s) %s)", arrSort(SInt, es), c.zero(u.Elem()).S), arrSort(SInt, es)}
	}
	return tInt(0)
}

func compKind(name string) string {
	if i := strings.Index(name, ":"); i > 0 {
		return name[:i]
	}
	return name
}
