package main

import (
	"fmt"
	"go/constant"
	"go/token"
	"go/types"
	"math/big"
	"strings"

	"golang.org/x/tools/go/ssa"
)

// SType is the type of a specification expression: a Go type, or a ghost (value) map.
type SType struct {
	Go  types.Type
	Key *SType // ghost map key
	Val *SType // ghost map value
	Nil bool   // the untyped nil
}

func goT(t types.Type) *SType { return &SType{Go: t} }

var tyInt = goT(types.Typ[types.Int])
var tyBool = goT(types.Typ[types.Bool])
var tyString = goT(types.Typ[types.String])

func (c *Ctx) sortOfS(t *SType) Sort {
	if t == nil || t.Nil {
		return SInt
	}
	if t.Key != nil {
		return arrSort(c.sortOfS(t.Key), c.sortOfS(t.Val))
	}
	return c.sortOf(t.Go)
}

type SVal struct {
	T  Term
	Ty *SType
}

type Env struct {
	t        *Tr
	c        *Ctx
	vars     map[string]*SVal
	locs     map[string]*Loc // variables that live in cells (read in the env's state)
	st, old  *State
	pkg      *types.Package
	backedge bool
	bound    map[string]bool // names bound by quantifiers / let (not rebound inside old())
	own      bool            // environment of the function under translation (not of a callee's contract)
	visComp  string   // visited-set component of the map range loop whose invariant is being read ("" if none)
	recName  string   // name of the pure function being defined (for self calls)
	recComps []string // its state parameters
	depth    int
}

func (e *Env) clone() *Env {
	n := *e
	n.vars = map[string]*SVal{}
	for k, v := range e.vars {
		n.vars[k] = v
	}
	return &n
}

func (e *Env) errf(f string, a ...interface{}) error { return fmt.Errorf(f, a...) }

func (e *Env) boolExpr(x Expr) (Term, error) {
	v, err := e.expr(x)
	if err != nil {
		return Term{}, err
	}
	if v.T.Sort != SBool {
		return Term{}, fmt.Errorf("boolean expected, got %s", v.T.Sort)
	}
	return v.T, nil
}

// resolveType evaluates a Go type expression in the package scope.
func (e *Env) resolveType(s string) (*SType, error) {
	s = strings.TrimSpace(s)
	if s == "" || s == "int" {
		return tyInt, nil
	}
	if strings.HasPrefix(s, "ghostmap[") || strings.HasPrefix(s, "set[") {
		// ghostmap[K]V : value-semantics map (SMT array);  set[K] = ghostmap[K]bool
		isSet := strings.HasPrefix(s, "set[")
		open := strings.Index(s, "[")
		d := 0
		close := -1
		for i := open; i < len(s); i++ {
			if s[i] == '[' {
				d++
			} else if s[i] == ']' {
				d--
				if d == 0 {
					close = i
					break
				}
			}
		}
		if close < 0 {
			return nil, fmt.Errorf("bad ghost type %q", s)
		}
		k, err := e.resolveType(s[open+1 : close])
		if err != nil {
			return nil, err
		}
		if isSet {
			return &SType{Key: k, Val: tyBool}, nil
		}
		v, err := e.resolveType(s[close+1:])
		if err != nil {
			return nil, err
		}
		return &SType{Key: k, Val: v}, nil
	}
	tv, err := types.Eval(e.c.w.Fset, e.pkg, token.NoPos, s)
	if err != nil {
		// imports are file-scoped: try the scope of each file of the package
		for _, f := range e.c.w.Files[e.pkg] {
			tv2, err2 := types.Eval(e.c.w.Fset, e.pkg, f.Name.Pos(), s)
			if err2 == nil {
				tv, err = tv2, nil
				break
			}
		}
	}
	if err != nil {
		return nil, fmt.Errorf("type %q: %v", s, err)
	}
	if !tv.IsType() {
		return nil, fmt.Errorf("%q is not a type", s)
	}
	return goT(tv.Type), nil
}

func (e *Env) expr(x Expr) (*SVal, error) {
	c := e.c
	switch n := x.(type) {
	case *EInt:
		return &SVal{tBig(n.V), tyInt}, nil
	case *EStr:
		return &SVal{smtString(n.V), tyString}, nil
	case *EBool:
		return &SVal{tBool(n.V), tyBool}, nil
	case *ENil:
		return &SVal{tInt(0), &SType{Nil: true}}, nil
	case *EIdent:
		return e.ident(n.Name)
	case *EUnary:
		v, err := e.expr(n.X)
		if err != nil {
			return nil, err
		}
		switch n.Op {
		case "!":
			return &SVal{not(v.T), tyBool}, nil
		case "-":
			return &SVal{app("-", v.T.Sort, v.T), v.Ty}, nil
		}
		return nil, e.errf("unsupported unary %s", n.Op)
	case *EBinary:
		return e.binary(n)
	case *ECond:
		cnd, err := e.boolExpr(n.C)
		if err != nil {
			return nil, err
		}
		a, err := e.expr(n.A)
		if err != nil {
			return nil, err
		}
		b, err := e.expr(n.B)
		if err != nil {
			return nil, err
		}
		a, b = e.unifyNil(a, b)
		return &SVal{ite(cnd, a.T, b.T), a.Ty}, nil
	case *ESel:
		return e.selector(n)
	case *EIndex:
		return e.index(n)
	case *ESlice:
		v, err := e.expr(n.X)
		if err != nil {
			return nil, err
		}
		lo := tInt(0)
		if n.Lo != nil {
			l, err := e.expr(n.Lo)
			if err != nil {
				return nil, err
			}
			lo = l.T
		}
		if v.T.Sort == SStr {
			hi := app("str.len", SInt, v.T)
			if n.Hi != nil {
				h, err := e.expr(n.Hi)
				if err != nil {
					return nil, err
				}
				hi = h.T
			}
			return &SVal{app("str.substr", SStr, v.T, lo, sub(hi, lo)), v.Ty}, nil
		}
		if v.T.Sort != SSlice {
			return nil, e.errf("slice expression on non-slice")
		}
		hi := sLen(v.T)
		if n.Hi != nil {
			h, err := e.expr(n.Hi)
			if err != nil {
				return nil, err
			}
			hi = h.T
		}
		return &SVal{mkSlice(sArr(v.T), add(sOff(v.T), lo), sub(hi, lo), sub(sCap(v.T), lo)), v.Ty}, nil
	case *ECall:
		return e.call(n)
	case *EQuant:
		if r, ok := e.frameRewrite(n); ok {
			return r, nil
		}
		ne := e.clone()
		var binds []string
		var guards []Term
		var pats []string
		for _, qv := range n.Vars {
			ty, err := e.resolveType(qv.Type)
			if err != nil {
				return nil, err
			}
			nm := sym("q!" + qv.Name)
			s := c.sortOfS(ty)
			binds = append(binds, fmt.Sprintf("(%s %s)", nm, s))
			ne.vars[qv.Name] = &SVal{Term{nm, s}, ty}
			ne.bound = addBound(ne.bound, qv.Name)
			if ty.Go != nil && qv.Type != "" && qv.Type != "int" {
				if g := c.typeFact(ty.Go, Term{nm, s}); g.S != "true" {
					guards = append(guards, g)
				}
			}
			// index variables: quantify over the absolute position in the backing array of the first
			// slice indexed by exactly this variable, so that the trigger contains no arithmetic.
			if s == SInt {
				if base := findIndexOcc(n.Body, qv.Name, n.Vars); base != nil {
					if bv, err := e.expr(base); err == nil && bv.T.Sort == SSlice {
						ne.vars[qv.Name] = &SVal{sub(Term{nm, SInt}, sOff(bv.T)), ty}
						if sl, ok := bv.Ty.Go.Underlying().(*types.Slice); ok {
							comp := e.t.regElem(sl.Elem())
							for _, st := range []*State{e.st, e.old} {
								if st == nil {
									continue
								}
								pats = append(pats, sel(sel(c.get(st, comp), sArr(bv.T)), Term{nm, SInt}).S)
							}
						}
					}
				}
			}
		}
		body, err := ne.boolExpr(n.Body)
		if err != nil {
			return nil, err
		}
		q := "forall"
		if n.Forall {
			body = implies(and(guards...), body)
		} else {
			q = "exists"
			body = and(append(guards, body)...)
		}
		if len(n.Triggers) > 0 {
			var ts []string
			for _, tr := range n.Triggers {
				tv, err := ne.expr(tr)
				if err != nil {
					return nil, err
				}
				ts = append(ts, tv.T.S)
			}
			return &SVal{Term{fmt.Sprintf("(%s (%s) (! %s :pattern (%s)))", q, strings.Join(binds, " "), body.S, strings.Join(ts, " ")), SBool}, tyBool}, nil
		}
		var used []string
		seenPat := map[string]bool{}
		for _, p := range pats {
			if strings.Contains(body.S, p) && !seenPat[p] {
				seenPat[p] = true
				used = append(used, p)
			}
		}
		if len(used) > 0 && len(n.Vars) == 1 {
			var ps []string
			for _, p := range used {
				ps = append(ps, ":pattern ("+p+")")
			}
			return &SVal{Term{fmt.Sprintf("(%s (%s) (! %s %s))", q, strings.Join(binds, " "), body.S, strings.Join(ps, " ")), SBool}, tyBool}, nil
		}
		return &SVal{Term{fmt.Sprintf("(%s (%s) %s)", q, strings.Join(binds, " "), body.S), SBool}, tyBool}, nil
	case *ELet:
		v, err := e.expr(n.Val)
		if err != nil {
			return nil, err
		}
		ne := e.clone()
		ne.bound = addBound(ne.bound, n.Name)
		if len(v.T.S) > 48 && (v.T.Sort == SInt || v.T.Sort == SBool || v.T.Sort == SStr) {
			// a real SMT let: the bound term is not duplicated at every use
			letSeq++
			nm := sym(fmt.Sprintf("l!%s!%d", n.Name, letSeq))
			ne.vars[n.Name] = &SVal{Term{nm, v.T.Sort}, v.Ty}
			b, err := ne.expr(n.Body)
			if err != nil {
				return nil, err
			}
			return &SVal{Term{"(let ((" + nm + " " + v.T.S + ")) " + b.T.S + ")", b.T.Sort}, b.Ty}, nil
		}
		ne.vars[n.Name] = v
		return ne.expr(n.Body)
	}
	return nil, e.errf("unsupported expression %T", x)
}

func (e *Env) unifyNil(a, b *SVal) (*SVal, *SVal) {
	if a.Ty != nil && a.Ty.Nil && b.Ty != nil && !b.Ty.Nil {
		return &SVal{e.nilOf(b), b.Ty}, b
	}
	if b.Ty != nil && b.Ty.Nil && a.Ty != nil && !a.Ty.Nil {
		return a, &SVal{e.nilOf(a), a.Ty}
	}
	return a, b
}

func (e *Env) nilOf(v *SVal) Term {
	if v.T.Sort == SSlice {
		return nilSlice
	}
	return tInt(0)
}

func (e *Env) binary(n *EBinary) (*SVal, error) {
	switch n.Op {
	case "&&", "||", "==>", "<==>":
		a, err := e.boolExpr(n.X)
		if err != nil {
			return nil, err
		}
		b, err := e.boolExpr(n.Y)
		if err != nil {
			return nil, err
		}
		switch n.Op {
		case "&&":
			return &SVal{and(a, b), tyBool}, nil
		case "||":
			return &SVal{or(a, b), tyBool}, nil
		case "==>":
			return &SVal{implies(a, b), tyBool}, nil
		}
		return &SVal{eq(a, b), tyBool}, nil
	}
	a, err := e.expr(n.X)
	if err != nil {
		return nil, err
	}
	b, err := e.expr(n.Y)
	if err != nil {
		return nil, err
	}
	switch n.Op {
	case "in":
		return e.member(a, b)
	case "==", "!=":
		var r Term
		switch {
		case a.Ty != nil && a.Ty.Nil && b.T.Sort == SSlice:
			r = eq(sArr(b.T), tInt(0))
		case b.Ty != nil && b.Ty.Nil && a.T.Sort == SSlice:
			r = eq(sArr(a.T), tInt(0))
		default:
			if a.T.Sort != b.T.Sort {
				return nil, e.errf("comparison of %s with %s", a.T.Sort, b.T.Sort)
			}
			r = eq(a.T, b.T)
		}
		if n.Op == "!=" {
			r = not(r)
		}
		return &SVal{r, tyBool}, nil
	case "<", "<=", ">", ">=":
		if a.T.Sort == SStr {
			switch n.Op {
			case "<":
				return &SVal{app("str.<", SBool, a.T, b.T), tyBool}, nil
			case "<=":
				return &SVal{app("str.<=", SBool, a.T, b.T), tyBool}, nil
			case ">":
				return &SVal{app("str.<", SBool, b.T, a.T), tyBool}, nil
			}
			return &SVal{app("str.<=", SBool, b.T, a.T), tyBool}, nil
		}
		return &SVal{app(n.Op, SBool, a.T, b.T), tyBool}, nil
	case "+":
		if a.T.Sort == SStr {
			return &SVal{app("str.++", SStr, a.T, b.T), a.Ty}, nil
		}
		return &SVal{add(a.T, b.T), a.Ty}, nil
	case "-":
		return &SVal{sub(a.T, b.T), a.Ty}, nil
	case "*":
		return &SVal{mul(a.T, b.T), a.Ty}, nil
	case "/":
		return &SVal{app("div", SInt, a.T, b.T), a.Ty}, nil
	case "%":
		return &SVal{app("mod", SInt, a.T, b.T), a.Ty}, nil
	}
	return nil, e.errf("unsupported operator %s", n.Op)
}

func (e *Env) member(k, m *SVal) (*SVal, error) {
	if m.Ty != nil && m.Ty.Key != nil {
		if m.Ty.Val.Go != nil && e.c.sortOfS(m.Ty.Val) == SBool {
			return &SVal{sel(m.T, k.T), tyBool}, nil
		}
		return nil, e.errf("'in' on a ghost map that is not a set")
	}
	if m.Ty != nil && m.Ty.Go != nil {
		if _, ok := m.Ty.Go.Underlying().(*types.Map); ok {
			e.t.regMap(m.Ty.Go)
			return &SVal{e.t.mapHas(e.st, m.Ty.Go, m.T, k.T), tyBool}, nil
		}
	}
	return nil, e.errf("'in' needs a map or set")
}

func (e *Env) ident(name string) (*SVal, error) {
	if v, ok := e.vars[name]; ok {
		return v, nil
	}
	if l, ok := e.locs[name]; ok {
		return &SVal{e.c.locRead(e.st, l), goT(l.valueType())}, nil
	}
	if e.pkg != nil {
		if obj := e.pkg.Scope().Lookup(name); obj != nil {
			return e.object(obj)
		}
	}
	if obj := types.Universe.Lookup(name); obj != nil {
		if cst, ok := obj.(*types.Const); ok {
			return e.constant(cst)
		}
	}
	if y, ok := e.t.aliases[name]; ok && y != name {
		return e.ident(y)
	}
	return nil, e.errf("unknown identifier %q", name)
}

func (e *Env) constant(cst *types.Const) (*SVal, error) {
	switch cst.Val().Kind() {
	case constant.Int:
		n, _ := new(big.Int).SetString(cst.Val().ExactString(), 10)
		return &SVal{tBig(n), goT(cst.Type())}, nil
	case constant.Bool:
		return &SVal{tBool(constant.BoolVal(cst.Val())), tyBool}, nil
	case constant.String:
		return &SVal{smtString(constant.StringVal(cst.Val())), goT(cst.Type())}, nil
	}
	return nil, e.errf("unsupported constant %s", cst.Name())
}

func (e *Env) object(obj types.Object) (*SVal, error) {
	switch o := obj.(type) {
	case *types.Const:
		return e.constant(o)
	case *types.Var:
		// package-level variable
		comp := compGlobal(o.Pkg().Name(), o.Name())
		e.c.regComp(comp, e.c.sortOf(o.Type()))
		v := e.c.get(e.st, comp)
		e.c.fact(e.c.typeFact(o.Type(), v))
		return &SVal{v, goT(o.Type())}, nil
	}
	return nil, e.errf("cannot use %s in a specification", obj.Name())
}

func (e *Env) selector(n *ESel) (*SVal, error) {
	if id, ok := n.X.(*EIdent); ok {
		if id.Name == "ghost" {
			return e.ghostVar(n.Name)
		}
		if _, isVar := e.vars[id.Name]; !isVar {
			if _, isLoc := e.locs[id.Name]; !isLoc && e.pkg != nil {
				// imported package?
				if imp := e.c.w.Alias[e.pkg][id.Name]; imp != nil {
					obj := imp.Scope().Lookup(n.Name)
					if obj == nil {
						return nil, e.errf("%s.%s not found", id.Name, n.Name)
					}
					return e.object(obj)
				}
			}
		}
	}
	v, err := e.expr(n.X)
	if err != nil {
		return nil, err
	}
	if v.Ty == nil || v.Ty.Go == nil {
		return nil, e.errf("selector .%s on untyped value", n.Name)
	}
	return e.fieldOf(v, n.Name)
}

func (e *Env) fieldOf(v *SVal, name string) (*SVal, error) {
	c := e.c
	typ := v.Ty.Go
	obj, path, _ := types.LookupFieldOrMethod(typ, true, e.pkg, name)
	fld, ok := obj.(*types.Var)
	if !ok || fld == nil {
		return nil, e.errf("no field %s in %s", name, typeShort(typ))
	}
	cur := v.T
	ct := typ
	for _, fi := range path {
		if p, isPtr := types.Unalias(ct).Underlying().(*types.Pointer); isPtr {
			styp := p.Elem()
			st, ok := styp.Underlying().(*types.Struct)
			if !ok {
				return nil, e.errf("field of non-struct pointer")
			}
			comp, ft := e.t.regField(styp, fi)
			cur = sel(c.get(e.st, comp), cur)
			ct = ft
			_ = st
			continue
		}
		st, ok := ct.Underlying().(*types.Struct)
		if !ok {
			return nil, e.errf("field of non-struct")
		}
		cur = c.structField(ct, cur, fi)
		ct = st.Field(fi).Type()
	}
	c.fact(c.typeFact(ct, cur))
	return &SVal{cur, goT(ct)}, nil
}

func (e *Env) ghostVar(name string) (*SVal, error) {
	g := e.t.sp.Ghosts[name]
	if g == nil {
		return nil, e.errf("unknown ghost variable %s", name)
	}
	ge := *e
	ge.pkg = e.t.pkgByName(g.Pkg)
	ty, err := ge.resolveType(g.Type)
	if err != nil {
		return nil, err
	}
	comp := "ghost:" + name
	e.c.regComp(comp, e.c.sortOfS(ty))
	return &SVal{e.c.get(e.st, comp), ty}, nil
}

func (e *Env) index(n *EIndex) (*SVal, error) {
	c := e.c
	v, err := e.expr(n.X)
	if err != nil {
		return nil, err
	}
	i, err := e.expr(n.I)
	if err != nil {
		return nil, err
	}
	if v.Ty != nil && v.Ty.Key != nil {
		return &SVal{sel(v.T, i.T), v.Ty.Val}, nil
	}
	if v.Ty == nil || v.Ty.Go == nil {
		return nil, e.errf("index on untyped value")
	}
	switch u := v.Ty.Go.Underlying().(type) {
	case *types.Slice:
		comp := e.t.regElem(u.Elem())
		r := sel(sel(c.get(e.st, comp), sArr(v.T)), addOff(sOff(v.T), i.T))
		c.fact(c.typeFact(u.Elem(), r))
		return &SVal{r, goT(u.Elem())}, nil
	case *types.Map:
		e.t.regMap(v.Ty.Go)
		r := ite(e.t.mapHas(e.st, v.Ty.Go, v.T, i.T), sel(sel(c.get(e.st, compMapVal(v.Ty.Go)), v.T), i.T), c.zero(u.Elem()))
		return &SVal{r, goT(u.Elem())}, nil
	case *types.Array:
		return &SVal{sel(v.T, i.T), goT(u.Elem())}, nil
	case *types.Basic:
		if v.T.Sort == SStr {
			return &SVal{app("str.to_code", SInt, app("str.at", SStr, v.T, i.T)), goT(types.Typ[types.Byte])}, nil
		}
	}
	return nil, e.errf("cannot index %s", typeShort(v.Ty.Go))
}

var builtinSpecFuncs = map[string]bool{"len": true, "cap": true, "old": true, "be16": true, "be32": true, "be64": true, "bytesEq": true,
	"crc32c": true, "dom": true, "isnil": true, "arrOf": true, "offOf": true, "sameArr": true, "typeIs": true, "allocated": true, "fresh": true, "update": true, "str": true, "boxed": true, "unbox": true, "isa": true, "apply": true, "itoa": true, "visited": true}

func (e *Env) call(n *ECall) (*SVal, error) {
	c := e.c
	id, isId := n.Fun.(*EIdent)
	if !isId {
		if s, ok := n.Fun.(*ESel); ok {
			// qualified type conversion or spec func pkg.f(...)
			if pid, ok2 := s.X.(*EIdent); ok2 {
				if f := e.t.sp.Funcs[s.Name]; f != nil && f.Pkg == pid.Name {
					return e.specCall(f, n.Args)
				}
				if ty, err := e.resolveType(pid.Name + "." + s.Name); err == nil && len(n.Args) == 1 {
					return e.conversion(ty, n.Args[0])
				}
			}
		}
		return nil, e.errf("unsupported call expression")
	}
	switch id.Name {
	case "old":
		if len(n.Args) != 1 {
			return nil, e.errf("old(e)")
		}
		oe := *e
		oe.st = e.old
		if e.old == nil {
			return nil, e.errf("old() not available here")
		}
		// inside old(...) a parameter that the body reassigns denotes its value on entry
		var reb map[string]*SVal
		for _, p := range e.ownParams() {
			cur, ok := e.vars[p.Name()]
			_, isLoc := e.locs[p.Name()]
			pv := e.t.vals[p]
			if e.bound[p.Name()] || pv == nil || (!isLoc && ok && cur.T.S == pv.T.S) {
				continue
			}
			if reb == nil {
				reb = map[string]*SVal{}
				for k, v := range e.vars {
					reb[k] = v
				}
			}
			reb[p.Name()] = &SVal{pv.T, goT(p.Type())}
		}
		if reb != nil {
			oe.vars = reb
			nl := map[string]*Loc{}
			for k, v := range e.locs {
				if _, over := reb[k]; !over || e.bound[k] {
					nl[k] = v
				}
			}
			for _, p := range e.ownParams() {
				if _, isLoc := e.locs[p.Name()]; isLoc && !e.bound[p.Name()] {
					delete(nl, p.Name())
				}
			}
			oe.locs = nl
		}
		return oe.expr(n.Args[0])
	case "len", "cap":
		v, err := e.expr(n.Args[0])
		if err != nil {
			return nil, err
		}
		switch {
		case v.T.Sort == SSlice:
			if id.Name == "cap" {
				return &SVal{sCap(v.T), tyInt}, nil
			}
			return &SVal{sLen(v.T), tyInt}, nil
		case v.T.Sort == SStr:
			return &SVal{app("str.len", SInt, v.T), tyInt}, nil
		case v.Ty != nil && v.Ty.Go != nil:
			if _, ok := v.Ty.Go.Underlying().(*types.Map); ok {
				e.t.regMap(v.Ty.Go)
				r := sel(c.get(e.st, compMapLen(v.Ty.Go)), v.T)
				c.fact(le(tInt(0), r))
				return &SVal{ite(eq(v.T, tInt(0)), tInt(0), r), tyInt}, nil
			}
			if a, ok := v.Ty.Go.Underlying().(*types.Array); ok {
				return &SVal{tInt(a.Len()), tyInt}, nil
			}
		}
		return nil, e.errf("len of unsupported value")
	case "be16", "be32", "be64":
		s, err := e.expr(n.Args[0])
		if err != nil {
			return nil, err
		}
		i, err := e.expr(n.Args[1])
		if err != nil {
			return nil, err
		}
		nb := map[string]int{"be16": 2, "be32": 4, "be64": 8}[id.Name]
		rt := map[int]types.Type{2: types.Typ[types.Uint16], 4: types.Typ[types.Uint32], 8: types.Typ[types.Uint64]}[nb]
		return &SVal{e.t.bigEndian(e.st, s.T, i.T, nb), goT(rt)}, nil
	case "bytesEq":
		a, err := e.expr(n.Args[0])
		if err != nil {
			return nil, err
		}
		b, err := e.expr(n.Args[1])
		if err != nil {
			return nil, err
		}
		return &SVal{e.t.bytesEqual(e.st, a.T, b.T), tyBool}, nil
	case "crc32c":
		a, err := e.expr(n.Args[0])
		if err != nil {
			return nil, err
		}
		return &SVal{e.t.crc(e.st, a.T, tInt(0)), goT(types.Typ[types.Uint32])}, nil
	case "isnil":
		a, err := e.expr(n.Args[0])
		if err != nil {
			return nil, err
		}
		if a.T.Sort == SSlice {
			return &SVal{eq(sArr(a.T), tInt(0)), tyBool}, nil
		}
		return &SVal{eq(a.T, tInt(0)), tyBool}, nil
	case "arrOf":
		a, err := e.expr(n.Args[0])
		if err != nil {
			return nil, err
		}
		return &SVal{sArr(a.T), tyInt}, nil
	case "offOf":
		a, err := e.expr(n.Args[0])
		if err != nil {
			return nil, err
		}
		return &SVal{sOff(a.T), tyInt}, nil
	case "visited":
		// visited(k): the map range loop this invariant belongs to has already produced the key k
		if e.visComp == "" {
			return nil, e.errf("visited() is only available in the invariants of a range loop over a map")
		}
		if len(n.Args) != 1 {
			return nil, e.errf("visited takes one argument")
		}
		a, err := e.expr(n.Args[0])
		if err != nil {
			return nil, err
		}
		return &SVal{sel(c.get(e.st, e.visComp), a.T), tyBool}, nil
	case "allocated":
		a, err := e.expr(n.Args[0])
		if err != nil {
			return nil, err
		}
		x := a.T
		if x.Sort == SSlice {
			x = sArr(x)
		}
		return &SVal{lt(x, c.get(e.st, compAlloc)), tyBool}, nil
	case "fresh":
		if e.old == nil {
			return nil, e.errf("fresh() needs a two-state context")
		}
		a, err := e.expr(n.Args[0])
		if err != nil {
			return nil, err
		}
		x := a.T
		if x.Sort == SSlice {
			x = sArr(x)
		}
		return &SVal{and(le(c.get(e.old, compAlloc), x), lt(x, c.get(e.st, compAlloc))), tyBool}, nil
	case "update":
		// update(m, k, v): ghost map with one entry changed
		m, err := e.expr(n.Args[0])
		if err != nil {
			return nil, err
		}
		k, err := e.expr(n.Args[1])
		if err != nil {
			return nil, err
		}
		v, err := e.expr(n.Args[2])
		if err != nil {
			return nil, err
		}
		return &SVal{store(m.T, k.T, v.T), m.Ty}, nil
	case "boxed":
		// boxed(x): the interface value holding x (the injective constructor MakeInterface uses)
		a, err := e.expr(n.Args[0])
		if err != nil {
			return nil, err
		}
		if a.Ty == nil || a.Ty.Go == nil {
			return nil, e.errf("boxed needs a typed value")
		}
		f := c.declFun("mkiface:"+typeShort(a.Ty.Go), []Sort{a.T.Sort}, SInt)
		return &SVal{app(f, SInt, a.T), goT(types.NewInterfaceType(nil, nil))}, nil
	case "unbox":
		// unbox(x, "T"): the value of dynamic type T held by interface value x (what x.(T) yields)
		a, err := e.expr(n.Args[0])
		if err != nil {
			return nil, err
		}
		ts, ok := n.Args[1].(*EStr)
		if !ok {
			return nil, e.errf("unbox(x, \"T\")")
		}
		ty, err := e.resolveType(ts.V)
		if err != nil {
			return nil, err
		}
		return &SVal{e.t.payload(a.T, c.sortOf(ty.Go)), ty}, nil
	case "isa":
		// isa(x, "T"): interface value x is non-nil and holds a T
		a, err := e.expr(n.Args[0])
		if err != nil {
			return nil, err
		}
		ts, ok := n.Args[1].(*EStr)
		if !ok {
			return nil, e.errf("isa(x, \"T\")")
		}
		ty, err := e.resolveType(ts.V)
		if err != nil {
			return nil, err
		}
		return &SVal{and(not(eq(a.T, tInt(0))), eq(e.t.dynType(a.T), e.t.tagFact(ty.Go))), tyBool}, nil
	case "apply":
		// apply(f, x...): the result of calling the function value f (closure schema)
		f, err := e.expr(n.Args[0])
		if err != nil {
			return nil, err
		}
		sig, ok := f.Ty.Go.Underlying().(*types.Signature)
		if !ok || sig.Results().Len() != 1 {
			return nil, e.errf("apply needs a function value with one result")
		}
		var ats []Term
		var ss []Sort
		ats = append(ats, f.T)
		ss = append(ss, SInt)
		for _, a := range n.Args[1:] {
			v, err := e.expr(a)
			if err != nil {
				return nil, err
			}
			ats = append(ats, v.T)
			ss = append(ss, v.T.Sort)
		}
		rs := c.sortOf(sig.Results().At(0).Type())
		fn := c.declFun(applyName(ss[1:], rs), ss, rs)
		return &SVal{app(fn, rs, ats...), goT(sig.Results().At(0).Type())}, nil
	case "itoa":
		// itoa(n): decimal rendering of an integer
		a, err := e.expr(n.Args[0])
		if err != nil {
			return nil, err
		}
		return &SVal{ite(lt(a.T, tInt(0)), app("str.++", SStr, smtString("-"), app("str.from_int", SStr, sub(tInt(0), a.T))), app("str.from_int", SStr, a.T)), tyString}, nil
	case "str":
		// str(b): the string made of the bytes of slice b
		a, err := e.expr(n.Args[0])
		if err != nil {
			return nil, err
		}
		comp := e.t.regElem(types.Typ[types.Byte])
		f := c.declFun("str.of.bytes", []Sort{arrSort(SInt, SInt), SInt, SInt}, SStr)
		return &SVal{app(f, SStr, sel(c.get(e.st, comp), sArr(a.T)), sOff(a.T), sLen(a.T)), tyString}, nil
	}
	if _, isVar := e.vars[id.Name]; !isVar {
		if f := e.t.sp.Funcs[id.Name]; f != nil {
			return e.specCall(f, n.Args)
		}
		// conversion T(x)?
		if ty, err := e.resolveType(id.Name); err == nil && len(n.Args) == 1 {
			return e.conversion(ty, n.Args[0])
		}
	}
	return nil, e.errf("unknown function %s", id.Name)
}

func (e *Env) conversion(ty *SType, arg Expr) (*SVal, error) {
	v, err := e.expr(arg)
	if err != nil {
		return nil, err
	}
	ts := e.c.sortOfS(ty)
	if v.T.Sort == SInt && ts == SInt {
		if v.Ty != nil && v.Ty.Go != nil && ty.Go != nil {
			flo, fhi, fok := intRange(v.Ty.Go)
			tlo, thi, tok := intRange(ty.Go)
			_, isBin := arg.(*EBinary)
			_, isUn := arg.(*EUnary)
			// (specification arithmetic is mathematical: the result of + - * may leave the operand type's range)
			if fok && tok && flo.Cmp(tlo) >= 0 && fhi.Cmp(thi) <= 0 && !isBin && !isUn {
				return &SVal{v.T, ty}, nil
			}
			if tok {
				// an int literal / mathematical value in range stays; otherwise wraps like Go
				if _, isLit := arg.(*EInt); isLit {
					return &SVal{v.T, ty}, nil
				}
				return &SVal{e.t.wrap(v.T, ty.Go), ty}, nil
			}
		}
		return &SVal{v.T, ty}, nil
	}
	if v.T.Sort == ts {
		return &SVal{v.T, ty}, nil
	}
	if v.T.Sort == SSlice && ts == SStr {
		comp := e.t.regElem(types.Typ[types.Byte])
		f := e.c.declFun("str.of.bytes", []Sort{arrSort(SInt, SInt), SInt, SInt}, SStr)
		return &SVal{app(f, SStr, sel(e.c.get(e.st, comp), sArr(v.T)), sOff(v.T), sLen(v.T)), ty}, nil
	}
	return nil, e.errf("unsupported conversion to %s", ts)
}

// specCall: application of a pure specification function.
func (e *Env) specCall(f *SpecFunc, args []Expr) (*SVal, error) {
	if len(args) != len(f.Params) {
		return nil, e.errf("%s: %d arguments expected", f.Name, len(f.Params))
	}
	var ats []Term
	for _, a := range args {
		v, err := e.expr(a)
		if err != nil {
			return nil, err
		}
		ats = append(ats, v.T)
	}
	if e.recName == f.Name {
		// self call inside the definition: state parameters are passed through
		fe := *e
		fe.pkg = e.t.pkgByName(f.Pkg)
		rt, err := fe.resolveType(f.Result)
		if err != nil {
			return nil, err
		}
		for _, cn := range e.recComps {
			ats = append(ats, e.c.get(e.st, cn))
		}
		return &SVal{app(sym("spec:"+f.Name), e.c.sortOfS(rt), ats...), rt}, nil
	}
	d, err := e.t.defineSpecFunc(f)
	if err != nil {
		return nil, err
	}
	for i, a := range ats {
		if a.Sort != d.paramSorts[i] {
			return nil, e.errf("%s: argument %d has sort %s, want %s", f.Name, i+1, a.Sort, d.paramSorts[i])
		}
	}
	for _, cn := range d.comps {
		ats = append(ats, e.c.get(e.st, cn))
	}
	return &SVal{app(sym("spec:"+f.Name), d.resSort, ats...), d.resType}, nil
}

type specDef struct {
	comps      []string
	paramSorts []Sort
	resSort    Sort
	resType    *SType
}

func (t *Tr) pkgByName(name string) *types.Package {
	if sp, ok := t.w.SPkgs[name]; ok {
		return sp.Pkg
	}
	return nil
}

// paramState is a State whose components are the formal state parameters of a spec function.
func (t *Tr) defineSpecFunc(f *SpecFunc) (*specDef, error) {
	if d, ok := t.specDefs[f.Name]; ok {
		if d == nil {
			return nil, fmt.Errorf("mutually recursive spec functions are not supported (%s)", f.Name)
		}
		return d, nil
	}
	if t.specDefs == nil {
		t.specDefs = map[string]*specDef{}
	}
	t.specDefs[f.Name] = nil
	c := t.c
	env := &Env{t: t, c: c, vars: map[string]*SVal{}, pkg: t.pkgByName(f.Pkg)}
	d := &specDef{}
	var binds []string
	for _, p := range f.Params {
		ty, err := env.resolveType(p.Type)
		if err != nil {
			delete(t.specDefs, f.Name)
			return nil, fmt.Errorf("spec func %s: %v", f.Name, err)
		}
		s := c.sortOfS(ty)
		nm := sym("a!" + p.Name)
		env.vars[p.Name] = &SVal{Term{nm, s}, ty}
		binds = append(binds, fmt.Sprintf("(%s %s)", nm, s))
		d.paramSorts = append(d.paramSorts, s)
	}
	rt, err := env.resolveType(f.Result)
	if err != nil {
		delete(t.specDefs, f.Name)
		return nil, fmt.Errorf("spec func %s: %v", f.Name, err)
	}
	d.resType = rt
	d.resSort = c.sortOfS(rt)
	if f.Body == nil {
		c.declFun("spec:"+f.Name, d.paramSorts, d.resSort)
		t.specDefs[f.Name] = d
		t.trusted["uninterpreted spec function "+f.Name] = true
		return d, nil
	}
	// pass 1: find the state components the body reads
	rec := &State{comps: map[string]Term{}}
	rec.param = true
	rec.used = map[string]bool{}
	env.st = rec
	env.recName = f.Name
	nfacts := len(c.asserts)
	if _, err := env.expr(f.Body); err != nil {
		delete(t.specDefs, f.Name)
		return nil, fmt.Errorf("spec func %s: %v", f.Name, err)
	}
	// facts asserted during elaboration of a body mention bound parameters: drop them
	c.asserts = c.asserts[:nfacts]
	d.comps = sortedKeys(rec.used)
	env.recComps = d.comps
	// pass 2
	rec2 := &State{comps: map[string]Term{}, param: true, used: map[string]bool{}}
	env.st = rec2
	body, err := env.expr(f.Body)
	c.asserts = c.asserts[:nfacts]
	if err != nil {
		delete(t.specDefs, f.Name)
		return nil, err
	}
	for _, cn := range d.comps {
		binds = append(binds, fmt.Sprintf("(%s %s)", sym("$p:"+cn), c.compSort[cn]))
	}
	kw := "define-fun"
	if strings.Contains(body.T.S, sym("spec:"+f.Name)) {
		kw = "define-fun-rec"
	}
	c.declare("spec:"+f.Name, fmt.Sprintf("(%s %s (%s) %s %s)", kw, sym("spec:"+f.Name), strings.Join(binds, " "), d.resSort, body.T.S))
	t.specDefs[f.Name] = d
	return d, nil
}

// ---------------------------------------------------------------------------
// environments

func (e *Env) ownParams() []*ssa.Parameter {
	if !e.own {
		return nil
	}
	return e.t.fn.Params
}

var letSeq int

func addBound(m map[string]bool, n string) map[string]bool {
	out := map[string]bool{n: true}
	for k := range m {
		out[k] = true
	}
	return out
}

func (t *Tr) baseEnv(st *State) *Env {
	e := &Env{t: t, c: t.c, vars: map[string]*SVal{}, locs: map[string]*Loc{}, st: st, old: t.entrySt, own: true}
	if t.fn.Pkg != nil {
		e.pkg = t.fn.Pkg.Pkg
	} else if t.fn.Parent() != nil {
		for f := t.fn; f != nil; f = f.Parent() {
			if f.Pkg != nil {
				e.pkg = f.Pkg.Pkg
				break
			}
		}
	}
	for _, p := range t.fn.Params {
		e.vars[p.Name()] = &SVal{t.vals[p].T, goT(p.Type())}
	}
	// free variables of closures by name
	for _, fv := range t.fn.FreeVars {
		v := t.val(fv)
		if v.Loc != nil {
			e.locs[fv.Name()] = v.Loc
		} else {
			e.vars[fv.Name()] = &SVal{v.T, goT(fv.Type())}
		}
	}
	return e
}

func (t *Tr) entryEnv(st *State) *Env { return t.baseEnv(st) }

func (t *Tr) resultNames() []string {
	if t.ct != nil && len(t.ct.Returns) > 0 {
		return t.ct.Returns
	}
	res := t.fn.Signature.Results()
	var out []string
	for i := 0; i < res.Len(); i++ {
		n := res.At(i).Name()
		if n == "" || n == "_" {
			if res.Len() == 1 {
				n = "result"
			} else {
				n = fmt.Sprintf("result%d", i)
			}
		}
		out = append(out, n)
	}
	return out
}

func (t *Tr) exitEnv(r *retInfo) *Env {
	e := t.baseEnv(r.st)
	names := t.resultNames()
	res := t.fn.Signature.Results()
	for i, v := range r.results {
		if i < len(names) {
			e.vars[names[i]] = &SVal{v.T, goT(res.At(i).Type())}
		}
	}
	if len(r.results) == 1 {
		e.vars["result"] = &SVal{r.results[0].T, goT(res.At(0).Type())}
	}
	return e
}

// loopEnv: parameters plus the source variables live at a loop header.
func (t *Tr) loopEnv(li *loopInfo, st *State) *Env {
	e := t.baseEnv(st)
	h := li.head
	for _, in := range h.Instrs {
		if nx, ok := in.(*ssa.Next); ok && !nx.IsString {
			if rng, ok := nx.Iter.(*ssa.Range); ok {
				if vc := compVisited(t.fn, rng); t.c.compSort[vc] != "" {
					e.visComp = vc
				}
			}
		}
	}
	// walk the dominators of the header in order: loop-carried variables of enclosing/earlier
	// loops (phis named after the variable), address-taken locals, and definitions/uses (DebugRef)
	for _, b := range t.order {
		if b == h || !b.Dominates(h) || li.body[b] {
			continue
		}
		for _, in := range b.Instrs {
			switch x := in.(type) {
			case *ssa.Phi:
				if x.Comment != "" {
					if v, ok := t.vals[x]; ok && v.T.S != "" {
						delete(e.locs, x.Comment)
						e.vars[x.Comment] = &SVal{v.T, goT(x.Type())}
					}
				}
			case *ssa.Alloc:
				if x.Comment != "" {
					t.bindVar(e, x.Comment, x, true)
				}
			case *ssa.DebugRef:
				if obj := x.Object(); obj != nil {
					if v, isVar := obj.(*types.Var); isVar && !v.IsField() {
						t.bindVar(e, obj.Name(), x.X, x.IsAddr)
					}
				}
			}
		}
	}
	// loop-carried variables: header phis by their source name
	for _, in := range h.Instrs {
		phi, ok := in.(*ssa.Phi)
		if !ok {
			break
		}
		if phi.Comment != "" {
			if v, ok := t.vals[phi]; ok {
				delete(e.locs, phi.Comment)
				e.vars[phi.Comment] = &SVal{v.T, goT(phi.Type())}
			}
		}
	}
	return e
}

func (t *Tr) bindVar(e *Env, name string, x ssa.Value, isAddr bool) {
	v, ok := t.vals[x]
	if !ok {
		if _, isConst := x.(*ssa.Const); isConst {
			v = t.val(x)
		} else if _, isG := x.(*ssa.Global); isG {
			v = t.val(x)
		} else {
			return
		}
	}
	if isAddr {
		if v.Loc != nil {
			delete(e.vars, name)
			e.locs[name] = v.Loc
		} else if _, isStruct := deref(x.Type()).Underlying().(*types.Struct); isStruct {
			// local struct variable allocated on the heap: name denotes the struct; expose as pointer
			delete(e.locs, name)
			e.vars[name] = &SVal{v.T, goT(x.Type())}
		}
		return
	}
	if v.Loc != nil || v.T.S == "" {
		return
	}
	delete(e.locs, name)
	e.vars[name] = &SVal{v.T, goT(x.Type())}
}

// findIndexOcc: the base expression of the first x[v] in body whose index is exactly the
// variable v and whose base mentions no bound variable.
func findIndexOcc(body Expr, v string, bound []QVar) Expr {
	var found Expr
	mentions := func(e Expr) bool {
		m := false
		walkExpr(e, func(x Expr) {
			if id, ok := x.(*EIdent); ok {
				for _, b := range bound {
					if b.Name == id.Name {
						m = true
					}
				}
			}
		})
		return m
	}
	walkExpr(body, func(x Expr) {
		if found != nil {
			return
		}
		if ix, ok := x.(*EIndex); ok {
			if id, ok := ix.I.(*EIdent); ok && id.Name == v && !mentions(ix.X) {
				found = ix.X
			}
		}
	})
	return found
}

func walkExpr(e Expr, f func(Expr)) {
	if e == nil {
		return
	}
	f(e)
	switch n := e.(type) {
	case *EUnary:
		walkExpr(n.X, f)
	case *EBinary:
		walkExpr(n.X, f)
		walkExpr(n.Y, f)
	case *ECond:
		walkExpr(n.C, f)
		walkExpr(n.A, f)
		walkExpr(n.B, f)
	case *ESel:
		walkExpr(n.X, f)
	case *EIndex:
		walkExpr(n.X, f)
		walkExpr(n.I, f)
	case *ESlice:
		walkExpr(n.X, f)
		walkExpr(n.Lo, f)
		walkExpr(n.Hi, f)
	case *ECall:
		for _, a := range n.Args {
			walkExpr(a, f)
		}
	case *EQuant:
		walkExpr(n.Body, f)
	case *ELet:
		walkExpr(n.Val, f)
		walkExpr(n.Body, f)
	}
}

// addOff: off + idx, simplified when idx is (- a off).
func addOff(off, idx Term) Term {
	pre := "(- "
	suf := " " + off.S + ")"
	if strings.HasPrefix(idx.S, pre) && strings.HasSuffix(idx.S, suf) {
		inner := idx.S[len(pre) : len(idx.S)-len(suf)]
		// inner must be a single term
		if balanced(inner) {
			return Term{inner, SInt}
		}
	}
	return add(off, idx)
}

func balanced(s string) bool {
	if s == "" {
		return false
	}
	d := 0
	inBar := false
	for i := 0; i < len(s); i++ {
		c := s[i]
		if c == '|' {
			inBar = !inBar
		}
		if inBar {
			continue
		}
		switch c {
		case '(':
			d++
		case ')':
			d--
			if d < 0 {
				return false
			}
		case ' ':
			if d == 0 {
				return false
			}
		}
	}
	return d == 0
}

// frameRewrite turns the per-object frame shape
//     forall x T :: x != e1 && x != e2 ==> x.f == old(x.f) && x.g == old(x.g)
// into the quantifier-free array equations  F_f == store(store(old F_f, e1, F_f[e1]), e2, F_f[e2]) ...
// (equivalent by extensionality; needs no instantiation by the solver).
func (e *Env) frameRewrite(n *EQuant) (*SVal, bool) {
	if !n.Forall || len(n.Vars) != 1 || e.old == nil {
		return nil, false
	}
	v := n.Vars[0]
	imp, ok := n.Body.(*EBinary)
	var ante, cons Expr
	if ok && imp.Op == "==>" {
		ante, cons = imp.X, imp.Y
	} else {
		ante, cons = nil, n.Body
	}
	var excepts []Expr
	var collectA func(x Expr) bool
	collectA = func(x Expr) bool {
		b, ok := x.(*EBinary)
		if !ok {
			return false
		}
		if b.Op == "&&" {
			return collectA(b.X) && collectA(b.Y)
		}
		if b.Op != "!=" {
			return false
		}
		if id, ok := b.X.(*EIdent); ok && id.Name == v.Name && !mentionsVar(b.Y, v.Name) {
			excepts = append(excepts, b.Y)
			return true
		}
		if id, ok := b.Y.(*EIdent); ok && id.Name == v.Name && !mentionsVar(b.X, v.Name) {
			excepts = append(excepts, b.X)
			return true
		}
		return false
	}
	if ante != nil && !collectA(ante) {
		return nil, false
	}
	var fields []string
	var collectC func(x Expr) bool
	collectC = func(x Expr) bool {
		b, ok := x.(*EBinary)
		if !ok {
			return false
		}
		if b.Op == "&&" {
			return collectC(b.X) && collectC(b.Y)
		}
		if b.Op != "==" {
			return false
		}
		l, ok1 := b.X.(*ESel)
		r, ok2 := b.Y.(*ECall)
		if !ok1 || !ok2 {
			return false
		}
		lid, ok := l.X.(*EIdent)
		if !ok || lid.Name != v.Name {
			return false
		}
		rid, ok := r.Fun.(*EIdent)
		if !ok || rid.Name != "old" || len(r.Args) != 1 {
			return false
		}
		rs, ok := r.Args[0].(*ESel)
		if !ok || rs.Name != l.Name {
			return false
		}
		if ri, ok := rs.X.(*EIdent); !ok || ri.Name != v.Name {
			return false
		}
		fields = append(fields, l.Name)
		return true
	}
	if !collectC(cons) || len(fields) == 0 {
		return nil, false
	}
	ty, err := e.resolveType(v.Type)
	if err != nil || ty.Go == nil {
		return nil, false
	}
	styp := deref(ty.Go)
	su, ok := styp.Underlying().(*types.Struct)
	if !ok {
		return nil, false
	}
	if _, isPtr := ty.Go.Underlying().(*types.Pointer); !isPtr {
		return nil, false
	}
	var exTerms []Term
	for _, x := range excepts {
		xv, err := e.expr(x)
		if err != nil || xv.T.Sort != SInt {
			return nil, false
		}
		exTerms = append(exTerms, xv.T)
	}
	var parts []Term
	for _, f := range fields {
		fi := -1
		for i := 0; i < su.NumFields(); i++ {
			if su.Field(i).Name() == f {
				fi = i
			}
		}
		if fi < 0 {
			return nil, false
		}
		comp, _ := e.t.regField(styp, fi)
		cur, old := e.c.get(e.st, comp), e.c.get(e.old, comp)
		rhs := old
		for _, x := range exTerms {
			rhs = store(rhs, x, sel(cur, x))
		}
		parts = append(parts, eq(cur, rhs))
	}
	return &SVal{and(parts...), tyBool}, true
}

func mentionsVar(e Expr, name string) bool {
	m := false
	walkExpr(e, func(x Expr) {
		if id, ok := x.(*EIdent); ok && id.Name == name {
			m = true
		}
	})
	return m
}

func applyName(args []Sort, res Sort) string {
	var as []string
	for _, a := range args {
		as = append(as, string(a))
	}
	return "apply:" + strings.Join(as, ",") + "->" + string(res)
}
