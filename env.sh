# sourced by every script: offline Go toolchain that can build /repo (go 1.25.3)
TC=/root/go/pkg/mod/golang.org/toolchain@v0.0.1-go1.25.3.linux-amd64/bin
if [ -x "$TC/go" ]; then export PATH="$TC:$PATH"; fi
export GOFLAGS=-mod=mod GOPROXY=off GOSUMDB=off GOTOOLCHAIN=local
export GOCACHE=${GOCACHE:-/root/.cache/go-build}
