package commitlog

// BOUNDED stand-in for property C08 (not a proof): the key-scan phase of compaction hands the segments to a pool of
// goroutines over a channel and merges their findings in a sync.Map; the VC generator has no model of goroutines and
// channels, so what the workers TOGETHER put into the key table (every committed keyed message, whatever the number
// of workers and wherever the high watermark lies) is checked here by enumeration on the REAL commit log:
// every key pattern of a stated length over a small alphabet (with "no key" and the empty key), several segment
// sizes, every high-watermark position and several worker counts. After Clean() the log is read back and compared
// with an independently computed survivor set; forward and reverse readers from every offset must agree with it.

import (
	"context"
	"fmt"
	"os"
	"runtime"
	"sync"
	"testing"
	"time"
)

func lbvcCompRead(l *commitLog, from int64, max int) (offs []int64, vals []string) {
	r, err := l.NewReader(from, true)
	if err != nil {
		return nil, nil
	}
	hb := make([]byte, 28)
	newest := l.NewestOffset()
	for i := 0; i < max && from <= newest; i++ {
		// every read up to the newest offset finds a message: the time-out only guards against a hang
		ctx, cancel := context.WithTimeout(context.Background(), 10*time.Second)
		m, off, _, _, err := r.ReadMessage(ctx, hb)
		cancel()
		if err != nil {
			break
		}
		offs = append(offs, off)
		vals = append(vals, string(m.Key())+"="+string(m.Value()))
		if off >= newest {
			break
		}
	}
	return
}

func lbvcCompReadRev(l *commitLog, from int64) (offs []int64) {
	r, err := l.NewReverseReader(from, true)
	if err != nil {
		return nil
	}
	hb := make([]byte, 28)
	for i := 0; i < 64; i++ {
		ctx, cancel := context.WithTimeout(context.Background(), 10*time.Second)
		_, off, _, _, err := r.ReadMessage(ctx, hb)
		cancel()
		if err != nil {
			break
		}
		offs = append(offs, off)
	}
	return
}

func TestLbvcBoundedCompaction(t *testing.T) {
	thorough := os.Getenv("LBVC_TIER") == "thorough"
	alphabet := []string{"a", "b", "-", "="} // "-" no key, "=" empty non-nil key
	n := 6
	if thorough {
		n = 7
	}
	segSizes := []int64{60, 130}
	workers := []int{1, 2, 10}
	if thorough {
		segSizes = []int64{60, 100, 130}
		workers = []int{1, 2, 3, 10}
	}
	var (
		evaluations int
		states      = map[string]bool{}
		sample, bad string
	)
	total := 1
	for i := 0; i < n; i++ {
		total *= len(alphabet)
	}
	// patterns: every word of length n over the alphabet, thinned deterministically at quick (every 3rd) to keep the run short
	step := 3
	if thorough {
		step = 2
	}
	tmpBase := ""
	if st, err := os.Stat("/dev/shm"); err == nil && st.IsDir() {
		tmpBase = "/dev/shm" // memory-backed scratch space: the run is dominated by file creation
	}
	var mu sync.Mutex
	setBad := func(m string) {
		mu.Lock()
		if bad == "" {
			bad = m
		}
		mu.Unlock()
	}
	isBad := func() bool { mu.Lock(); defer mu.Unlock(); return bad != "" }
	jobs := make(chan int, 64)
	var wg sync.WaitGroup
	one := func(w int) {
		bad := ""
		defer func() {
			if bad != "" {
				setBad(bad)
			}
		}()
		pat := make([]string, n)
		x := w
		for i := 0; i < n; i++ {
			pat[i] = alphabet[x%len(alphabet)]
			x /= len(alphabet)
		}
		for _, segBytes := range segSizes {
			for _, nw := range workers {
				for hwBack := 0; hwBack < n && bad == ""; hwBack++ {
					dir, err := os.MkdirTemp(tmpBase, "lbvc-comp-")
					if err != nil {
						t.Skip(err)
					}
					lg, err := New(Options{Path: dir, MaxSegmentBytes: segBytes, Compact: true, CompactMaxGoroutines: nw, HWCheckpointInterval: time.Hour})
					if err != nil {
						os.RemoveAll(dir)
						t.Skip(err)
					}
					l := lg.(*commitLog)
					for i, k := range pat {
						var key []byte
						switch k {
						case "-":
						case "=":
							key = []byte{}
						default:
							key = []byte(k)
						}
						l.Append([]*Message{{Key: key, Value: []byte(fmt.Sprintf("v%d", i)), Timestamp: 1}})
					}
					hw := int64(n - 1 - hwBack)
					l.SetHighWatermark(hw)
					segs := l.Segments()
					newestBase := segs[len(segs)-1].BaseOffset
					latest := map[string]int64{}
					for i, k := range pat {
						if k != "-" && int64(i) <= hw {
							latest[k] = int64(i)
						}
					}
					var want []int64
					wantVal := map[int64]string{}
					for i, k := range pat {
						o := int64(i)
						if k == "-" || o >= hw || o >= newestBase || latest[k] == o {
							want = append(want, o)
							kk := k
							if kk == "-" || kk == "=" {
								kk = ""
							}
							wantVal[o] = fmt.Sprintf("%s=v%d", kk, i)
						}
					}
					desc := fmt.Sprintf("keys %v (- none, = empty), segment bytes %d (%d segments), %d workers, hw %d", pat, segBytes, len(segs), nw, hw)
					if err := l.Clean(); err != nil {
						bad = desc + ": Clean: " + err.Error()
					}
					got, vals := lbvcCompRead(l, 0, n+2)
					mu.Lock()
					evaluations++
					states[fmt.Sprint(pat, len(segs), hw, got)] = true
					if sample == "" && len(got) < n && len(segs) > 2 {
						sample = desc + fmt.Sprintf(": survivors %v", got)
					}
					mu.Unlock()
					// every message that must survive is there, unchanged; nothing else is required to be gone by the
					// property except that what IS there is in order and was there before
					for _, wo := range want {
						found := false
						for gi, g := range got {
							if g == wo {
								found = true
								if vals[gi] != wantVal[wo] && bad == "" {
									bad = desc + fmt.Sprintf(": offset %d reads %q after compaction, was %q", wo, vals[gi], wantVal[wo])
								}
							}
						}
						if !found && bad == "" {
							bad = desc + fmt.Sprintf(": offset %d must survive compaction but is gone (read back %v)", wo, got)
						}
					}
					for i := 1; i < len(got) && bad == ""; i++ {
						if got[i] <= got[i-1] {
							bad = desc + fmt.Sprintf(": forward read out of order %v", got)
						}
					}
					for start := int64(0); start < int64(n) && bad == ""; start++ {
						var expF, expR []int64
						for _, g := range got {
							if g >= start {
								expF = append(expF, g)
							}
						}
						for i := len(got) - 1; i >= 0; i-- {
							if got[i] <= start {
								expR = append(expR, got[i])
							}
						}
						if f, _ := lbvcCompRead(l, start, n+2); fmt.Sprint(f) != fmt.Sprint(expF) {
							bad = desc + fmt.Sprintf(": forward reader from %d returned %v, present are %v", start, f, expF)
						}
						if r := lbvcCompReadRev(l, start); fmt.Sprint(r) != fmt.Sprint(expR) && bad == "" {
							bad = desc + fmt.Sprintf(": reverse reader from %d returned %v, present at or below it are %v", start, r, expR)
						}
					}
					l.Close()
					os.RemoveAll(dir)
				}
			}
		}
	}
	for k := 0; k < runtime.NumCPU(); k++ {
		wg.Add(1)
		go func() {
			defer wg.Done()
			for w := range jobs {
				if !isBad() {
					one(w)
				}
			}
		}()
	}
	for w := 0; w < total; w += step {
		jobs <- w
	}
	close(jobs)
	wg.Wait()
	fmt.Printf("LBVC-BOUNDED-STATS evaluations=%d distinct=%d exhaustive=false length=%d\n", evaluations, len(states), n)
	if sample != "" {
		fmt.Printf("LBVC-BOUNDED-SAMPLE %s\n", sample)
	}
	if bad != "" {
		t.Fatalf("LBVC-BOUNDED-VIOLATION compaction: %s", bad)
	}
}
