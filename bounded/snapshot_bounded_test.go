package server

// BOUNDED stand-in for property C06 (not a proof): what Snapshot() stores must be the live metadata, for the states
// reached by a scripted operation sequence that exercises every kind of metadata operation (streams with several
// partitions, pause / resume, read-only, deletion and re-creation, consumer groups with more members than
// partitions, multi-stream members, leaves). After EVERY operation the snapshot content is compared with the live
// state; at the end the server restarts from the last snapshot and the rebuilt state is compared with the state
// before the restart.

import (
	"bytes"
	"context"
	"fmt"
	"os"
	"sort"
	"strings"
	"testing"
	"time"

	lift "github.com/liftbridge-io/go-liftbridge/v2"
	client "github.com/liftbridge-io/liftbridge-api/v2/go"
	"github.com/hashicorp/raft"
	proto "github.com/liftbridge-io/liftbridge/server/protocol"
)

func lbvcRenderLive(s *Server) string {
	var out []string
	for _, st := range s.metadata.GetStreams() {
		if strings.HasPrefix(st.GetName(), "__") {
			continue
		}
		for _, p := range st.GetPartitions() {
			isr := append([]string{}, p.GetISR()...) // the LIVE in-sync set (the map), not the list kept for the snapshot
			sort.Strings(isr)
			reps := append([]string{}, p.Replicas...)
			sort.Strings(reps)
			out = append(out, fmt.Sprintf("stream %s/%d subject=%s leader=%s leaderEpoch=%d epoch=%d isr=%v replicas=%v paused=%v readonly=%v",
				st.GetName(), p.Id, p.Subject, p.Leader, p.LeaderEpoch, p.Epoch, isr, reps, p.IsPaused(), p.GetReadonly()))
		}
	}
	for _, g := range s.metadata.GetConsumerGroups() {
		coord, epoch := g.GetCoordinator()
		var ms []string
		for id, streams := range g.GetMembers() {
			ss := append([]string{}, streams...)
			sort.Strings(ss)
			ms = append(ms, fmt.Sprintf("%s%v", id, ss))
		}
		sort.Strings(ms)
		out = append(out, fmt.Sprintf("group %s coordinator=%s epoch=%d members=%v", g.GetID(), coord, epoch, ms))
	}
	sort.Strings(out)
	return strings.Join(out, "\n")
}

// lbvcGroupAssignments renders who owns which partition in a group (read directly from the group's state).
func lbvcGroupAssignments(g *consumerGroup) string {
	g.mu.RLock()
	defer g.mu.RUnlock()
	var out []string
	for id, m := range g.members {
		var as []string
		for stream, parts := range m.assignments {
			ps := append([]int32{}, parts...)
			sort.Slice(ps, func(i, j int) bool { return ps[i] < ps[j] })
			as = append(as, fmt.Sprintf("%s%v", stream, ps))
		}
		sort.Strings(as)
		out = append(out, fmt.Sprintf("%s:%v", id, as))
	}
	sort.Strings(out)
	return strings.Join(out, " ")
}

// lbvcRestoredAssignments rebuilds a group the way Restore does - newConsumerGroup over the member list stored in the
// snapshot - once with the list as stored and once reversed (Snapshot takes the list from a Go map, so any order can
// be in a snapshot) and returns the assignments of both.
func lbvcRestoredAssignments(s *Server, pg *proto.ConsumerGroup) (asStored, reversed string) {
	build := func(members []*proto.Consumer) string {
		cp := *pg
		cp.Members = members
		g := newConsumerGroup(s.config.Clustering.ServerID, time.Hour, &cp, false, s.logger, func(string, string) error { return nil }, s.metadata.countStreamPartitions)
		defer g.Close()
		return lbvcGroupAssignments(g)
	}
	rev := make([]*proto.Consumer, len(pg.Members))
	for i, m := range pg.Members {
		rev[len(pg.Members)-1-i] = m
	}
	return build(pg.Members), build(rev)
}

func lbvcRenderSnapshot(snap *proto.MetadataSnapshot) string {
	var out []string
	for _, st := range snap.Streams {
		if strings.HasPrefix(st.Name, "__") {
			continue
		}
		for _, p := range st.Partitions {
			isr := append([]string{}, p.Isr...)
			sort.Strings(isr)
			reps := append([]string{}, p.Replicas...)
			sort.Strings(reps)
			out = append(out, fmt.Sprintf("stream %s/%d subject=%s leader=%s leaderEpoch=%d epoch=%d isr=%v replicas=%v paused=%v readonly=%v",
				st.Name, p.Id, p.Subject, p.Leader, p.LeaderEpoch, p.Epoch, isr, reps, p.Paused, p.Readonly))
		}
	}
	for _, g := range snap.Groups {
		var ms []string
		for _, m := range g.Members {
			ss := append([]string{}, m.Streams...)
			sort.Strings(ss)
			ms = append(ms, fmt.Sprintf("%s%v", m.Id, ss))
		}
		sort.Strings(ms)
		out = append(out, fmt.Sprintf("group %s coordinator=%s epoch=%d members=%v", g.Id, g.Coordinator, g.Epoch, ms))
	}
	sort.Strings(out)
	return strings.Join(out, "\n")
}

// lbvcSink is an in-memory raft.SnapshotSink: the stand-in looks at what Persist WRITES, not at the snapshot object
type lbvcSink struct{ bytes.Buffer }

func (s *lbvcSink) ID() string    { return "lbvc" }
func (s *lbvcSink) Close() error  { return nil }
func (s *lbvcSink) Cancel() error { return nil }

func lbvcPersist(snap raft.FSMSnapshot) (*proto.MetadataSnapshot, error) {
	sink := &lbvcSink{}
	if err := snap.Persist(sink); err != nil {
		return nil, err
	}
	b := sink.Bytes()
	if len(b) < 4 {
		return nil, fmt.Errorf("persisted snapshot of %d bytes", len(b))
	}
	ms := new(proto.MetadataSnapshot)
	if err := ms.Unmarshal(b[4:]); err != nil {
		return nil, err
	}
	return ms, nil
}

func lbvcGroupLines(render string) string {
	var out []string
	for _, l := range strings.Split(render, "\n") {
		if strings.HasPrefix(l, "group ") {
			out = append(out, l)
		}
	}
	return strings.Join(out, "\n")
}

func lbvcFirstDiff(a, b string) string {
	la, lb := strings.Split(a, "\n"), strings.Split(b, "\n")
	for i := 0; i < len(la) || i < len(lb); i++ {
		x, y := "", ""
		if i < len(la) {
			x = la[i]
		}
		if i < len(lb) {
			y = lb[i]
		}
		if x != y {
			return fmt.Sprintf("live %q vs stored %q", x, y)
		}
	}
	return ""
}

func TestLbvcBoundedSnapshot(t *testing.T) {
	defer cleanupStorage(t)
	cfg := getTestConfig("a", true, 5050)
	s1 := runServerWithConfig(t, cfg)
	getMetadataLeader(t, 10*time.Second, s1)
	c, err := lift.Connect([]string{"localhost:5050"})
	if err != nil {
		s1.Stop()
		t.Skip(err)
	}
	ctx := context.Background()
	api := s1.api
	type step struct {
		name string
		do   func() error
	}
	join := func(g, id string, streams ...string) func() error {
		return func() error {
			_, err := api.JoinConsumerGroup(ctx, &client.JoinConsumerGroupRequest{GroupId: g, ConsumerId: id, Streams: streams})
			return err
		}
	}
	leave := func(g, id string) func() error {
		return func() error {
			_, err := api.LeaveConsumerGroup(ctx, &client.LeaveConsumerGroupRequest{GroupId: g, ConsumerId: id})
			return err
		}
	}
	raftOp := func(op *proto.RaftLog) func() error {
		return func() error {
			fut, err := s1.getRaft().applyOperation(ctx, op, nil)
			if err != nil {
				return err
			}
			return fut.Error()
		}
	}
	isrOp := func(expand bool, replica string) func() error {
		return func() error {
			p := s1.metadata.GetPartition("isr", 0)
			if p == nil {
				return fmt.Errorf("no partition")
			}
			leader, epoch := p.GetLeader()
			op := &proto.RaftLog{Op: proto.Op_SHRINK_ISR, ShrinkISROp: &proto.ShrinkISROp{Stream: "isr", Partition: 0, ReplicaToRemove: replica, Leader: leader, LeaderEpoch: epoch}}
			if expand {
				op = &proto.RaftLog{Op: proto.Op_EXPAND_ISR, ExpandISROp: &proto.ExpandISROp{Stream: "isr", Partition: 0, ReplicaToAdd: replica, Leader: leader, LeaderEpoch: epoch}}
			}
			return raftOp(op)()
		}
	}
	steps := []step{
		{"create foo (1 partition)", func() error { return c.CreateStream(ctx, "foo", "foo") }},
		{"create bar (3 partitions)", func() error { return c.CreateStream(ctx, "bar", "bar", lift.Partitions(3)) }},
		{"join g/cons1 [foo bar]", join("g", "cons1", "foo", "bar")},
		{"join g/cons2 [foo bar] (stand-by for foo)", join("g", "cons2", "foo", "bar")},
		{"join g/cons3 [foo] (stand-by)", join("g", "cons3", "foo")},
		{"join h/x [bar]", join("h", "x", "bar")},
		{"publish to foo", func() error { _, err := c.Publish(ctx, "foo", []byte("m"), lift.AckPolicyLeader()); return err }},
		{"set bar read-only", func() error { return c.SetStreamReadonly(ctx, "bar") }},
		{"pause foo", func() error { return c.PauseStream(ctx, "foo") }},
		{"resume foo (publish)", func() error { _, err := c.Publish(ctx, "foo", []byte("m2"), lift.AckPolicyLeader()); return err }},
		{"leave g/cons1", leave("g", "cons1")},
		{"create baz", func() error { return c.CreateStream(ctx, "baz", "baz", lift.Partitions(2)) }},
		{"join g/cons4 [baz foo]", join("g", "cons4", "baz", "foo")},
		{"delete baz", func() error { return c.DeleteStream(ctx, "baz") }},
		{"re-create baz", func() error { return c.CreateStream(ctx, "baz", "baz2") }},
		{"set bar read-write", func() error { return c.SetStreamReadonly(ctx, "bar", lift.Readonly(false)) }},
		{"pause bar partition 1", func() error { return c.PauseStream(ctx, "bar", lift.PausePartitions(1)) }},
		{"leave h/x (group becomes empty)", leave("h", "x")},
		// a partition with several replicas (the servers b c d do not exist; only the metadata is exercised): its in-sync
		// set shrinks and expands, also by an expansion that is repeated (a leader retrying a request that had timed out
		// but was committed)
		{"create isr (replicas b c d, leader b)", raftOp(&proto.RaftLog{Op: proto.Op_CREATE_STREAM, CreateStreamOp: &proto.CreateStreamOp{Stream: &proto.Stream{Name: "isr", Subject: "isr",
			Partitions: []*proto.Partition{{Stream: "isr", Subject: "isr", Id: 0, ReplicationFactor: 3, Replicas: []string{"b", "c", "d"}, Isr: []string{"b", "c", "d"}, Leader: "b"}}}}})},
		{"shrink isr: c leaves", isrOp(false, "c")},
		{"expand isr: c joins", isrOp(true, "c")},
		{"expand isr: c joins (repeated)", isrOp(true, "c")},
		{"shrink isr: c leaves", isrOp(false, "c")},
		{"shrink isr: d leaves", isrOp(false, "d")},
		{"expand isr: d joins", isrOp(true, "d")},
		{"join g/cons5 [bar]", join("g", "cons5", "bar")},
		// a member whose only stream is deleted stays a member (without streams) and has to come back from a snapshot
		{"create solo", func() error { return c.CreateStream(ctx, "solo", "solo") }},
		{"join k/y [solo]", join("k", "y", "solo")},
		{"join k/z [solo bar]", join("k", "z", "solo", "bar")},
		{"delete solo (k/y is left without streams)", func() error { return c.DeleteStream(ctx, "solo") }},
		{"leave g/cons2", leave("g", "cons2")},
	}
	evaluations := 0
	states := map[string]bool{}
	bad := ""
	knownSeen := false
	var prevSnap raft.FSMSnapshot
	prevLive, prevName := "", ""
	for _, st := range steps {
		if err := st.do(); err != nil {
			continue // an operation the server refuses is not part of the history
		}
		time.Sleep(150 * time.Millisecond)
		snap, err := s1.Snapshot()
		if err != nil {
			bad = fmt.Sprintf("after %q: Snapshot fails: %v", st.name, err)
			break
		}
		live := lbvcRenderLive(s1)
		// Raft fixes a snapshot's index when Snapshot() is called but runs Persist later, while further operations are
		// applied: what the PREVIOUS step's snapshot stores about the consumer groups - persisted only now, one operation
		// later - must still be the groups as they were when it was taken (group operations are not idempotent: replaying
		// them over a snapshot that already contains them fails)
		if prevSnap != nil {
			if late, err := lbvcPersist(prevSnap); err == nil {
				evaluations++
				if got := lbvcGroupLines(lbvcRenderSnapshot(late)); got != lbvcGroupLines(prevLive) {
					bad = fmt.Sprintf("the snapshot taken after %q and persisted after the next operation (%q) does not hold the consumer groups as they were when it was taken: %s", prevName, st.name, lbvcFirstDiff(lbvcGroupLines(prevLive), got))
					break
				}
			}
		}
		prevSnap, prevLive, prevName = snap, live, st.name
		persisted, err := lbvcPersist(snap)
		if err != nil {
			bad = fmt.Sprintf("after %q: Persist fails: %v", st.name, err)
			break
		}
		stored := lbvcRenderSnapshot(persisted)
		evaluations++
		states[live] = true
		if live != stored {
			bad = fmt.Sprintf("after %q the snapshot does not hold the live metadata: %s", st.name, lbvcFirstDiff(live, stored))
			break
		}
		// who owns which partition must survive a restore from this snapshot, whatever order the member list has
		for _, pg := range persisted.Groups {
			lg := s1.metadata.GetConsumerGroup(pg.Id)
			if lg == nil {
				continue
			}
			liveAs := lbvcGroupAssignments(lg)
			a, b := lbvcRestoredAssignments(s1, pg)
			evaluations++
			if a != liveAs || b != liveAs {
				const key = "group-assignments-not-restored"
				msg := fmt.Sprintf("after %q: group %s epoch %d hands out %q; a group rebuilt from the snapshot's member list hands out %q (list as stored) / %q (list reversed) for the same epoch", st.name, pg.Id, pg.Epoch, liveAs, a, b)
				if strings.Contains(";"+os.Getenv("LBVC_KNOWN_CASES")+";", ";"+key+";") {
					if !knownSeen {
						knownSeen = true
						fmt.Printf("LBVC-BOUNDED-KNOWN %s: %s\n", key, msg)
					}
				} else if bad == "" {
					bad = "[" + key + "] " + msg
				}
			}
		}
		if bad != "" {
			break
		}
	}
	c.Close()
	sample := ""
	if bad == "" {
		before := lbvcRenderLive(s1)
		sample = strings.SplitN(before, "\n", 2)[0]
		if err := s1.getRaft().Snapshot().Error(); err == nil {
			s1.Stop()
			s1 = runServerWithConfig(t, s1.config)
			getMetadataLeader(t, 10*time.Second, s1)
			time.Sleep(500 * time.Millisecond)
			evaluations++
			if after := lbvcRenderLive(s1); after != before {
				bad = fmt.Sprintf("after a restart from the snapshot the metadata differs: %s (live = after the restart, stored = before)", lbvcFirstDiff(after, before))
			}
		}
	}
	s1.Stop()
	fmt.Printf("LBVC-BOUNDED-STATS evaluations=%d distinct=%d exhaustive=false operations=%d\n", evaluations, len(states), len(steps))
	if sample != "" {
		fmt.Printf("LBVC-BOUNDED-SAMPLE %s\n", sample)
	}
	if bad != "" {
		t.Fatalf("LBVC-BOUNDED-VIOLATION snapshot: %s", bad)
	}
	_ = os.Getenv
}
