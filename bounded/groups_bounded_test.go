package server

// BOUNDED stand-in for property C12 (not a proof): exhaustive enumeration of every legal sequence of group
// operations up to a stated depth, on the REAL consumerGroup code, over a fixed small universe
// (members a,b,c; streams s1 with 2 partitions, s2 with 3 partitions; every non-empty subscription set, and a join
// naming a stream twice).
// After every operation the property's sentences are checked directly on the group's state, and three replicas
// that apply the same sequence are compared (Go randomises map iteration, so an order dependence shows up).

import (
	"fmt"
	"os"
	"sort"
	"strings"
	"testing"
	"time"

	"github.com/liftbridge-io/liftbridge/server/logger"
	proto "github.com/liftbridge-io/liftbridge/server/protocol"
)

type lbvcGroupOp struct {
	kind    string // join, leave, delete
	member  string
	streams []string
	stream  string
}

func (o lbvcGroupOp) String() string {
	switch o.kind {
	case "join":
		return fmt.Sprintf("join(%s,%v)", o.member, o.streams)
	case "leave":
		return fmt.Sprintf("leave(%s)", o.member)
	}
	return fmt.Sprintf("deleteStream(%s)", o.stream)
}

type lbvcGroupWorld struct {
	groups  []*consumerGroup
	members map[string][]string // live members -> subscribed (not deleted) streams
	deleted map[string]bool
	epoch   uint64
}

var lbvcParts = map[string]int32{"s1": 2, "s2": 3}

func lbvcNewGroupWorld(log logger.Logger) *lbvcGroupWorld {
	w := &lbvcGroupWorld{members: map[string][]string{}, deleted: map[string]bool{}}
	for i := 0; i < 3; i++ {
		w.groups = append(w.groups, newConsumerGroup("this-server", time.Hour, &proto.ConsumerGroup{Id: "g", Coordinator: "another-server", Epoch: 0},
			false, log, func(string, string) error { return nil }, func(s string) int32 {
				if w.deleted[s] {
					return 0
				}
				return lbvcParts[s]
			}))
	}
	return w
}

func (w *lbvcGroupWorld) legalOps() []lbvcGroupOp {
	var ops []lbvcGroupOp
	var live []string
	for _, s := range []string{"s1", "s2"} {
		if !w.deleted[s] {
			live = append(live, s)
		}
	}
	var subsets [][]string
	for mask := 1; mask < 1<<len(live); mask++ {
		var ss []string
		for i, s := range live {
			if mask&(1<<i) != 0 {
				ss = append(ss, s)
			}
		}
		subsets = append(subsets, ss)
	}
	for _, m := range []string{"a", "b", "c"} {
		if _, ok := w.members[m]; ok {
			ops = append(ops, lbvcGroupOp{kind: "leave", member: m})
		} else {
			for _, ss := range subsets {
				ops = append(ops, lbvcGroupOp{kind: "join", member: m, streams: ss})
			}
			// a join request may name a stream more than once: it is one subscription
			if len(live) > 0 {
				ops = append(ops, lbvcGroupOp{kind: "join", member: m, streams: append(append([]string{}, live...), live[0])})
			}
		}
	}
	for _, s := range live {
		ops = append(ops, lbvcGroupOp{kind: "delete", stream: s})
	}
	return ops
}

func (w *lbvcGroupWorld) apply(op lbvcGroupOp) error {
	w.epoch++
	for _, g := range w.groups {
		var err error
		switch op.kind {
		case "join":
			err = g.AddMember(op.member, append([]string{}, op.streams...), w.epoch)
		case "leave":
			_, err = g.RemoveMember(op.member, w.epoch)
		case "delete":
			err = g.StreamDeleted(op.stream, w.epoch)
		}
		if err != nil {
			return err
		}
	}
	switch op.kind {
	case "join":
		var set []string
		for _, s := range op.streams {
			dup := false
			for _, x := range set {
				dup = dup || x == s
			}
			if !dup {
				set = append(set, s)
			}
		}
		w.members[op.member] = set
	case "leave":
		delete(w.members, op.member)
	case "delete":
		w.deleted[op.stream] = true
		for m, ss := range w.members {
			var keep []string
			for _, s := range ss {
				if s != op.stream {
					keep = append(keep, s)
				}
			}
			w.members[m] = keep
		}
	}
	return nil
}

func lbvcGroupState(g *consumerGroup) string {
	g.mu.RLock()
	defer g.mu.RUnlock()
	var ids []string
	for id := range g.members {
		ids = append(ids, id)
	}
	sort.Strings(ids)
	var sb strings.Builder
	for _, id := range ids {
		m := g.members[id]
		var ss []string
		for s := range m.assignments {
			ss = append(ss, s)
		}
		sort.Strings(ss)
		fmt.Fprintf(&sb, "%s{", id)
		for _, s := range ss {
			fmt.Fprintf(&sb, "%s:%v", s, m.assignments[s])
		}
		sb.WriteString("} ")
	}
	return sb.String()
}

// check the property's sentences on replica 0 and the replicas' agreement; returns "" or what is wrong
func (w *lbvcGroupWorld) check() string {
	g := w.groups[0]
	g.mu.RLock()
	// every partition of every stream with a subscribed member: exactly one owner, and the owner subscribed
	for _, s := range []string{"s1", "s2"} {
		if w.deleted[s] {
			continue
		}
		subscribed := false
		for _, ss := range w.members {
			for _, x := range ss {
				if x == s {
					subscribed = true
				}
			}
		}
		for p := int32(0); p < lbvcParts[s]; p++ {
			var owners []string
			for id, m := range g.members {
				for _, q := range m.assignments[s] {
					if q == p {
						owners = append(owners, id)
					}
				}
			}
			if subscribed && len(owners) != 1 {
				g.mu.RUnlock()
				return fmt.Sprintf("partition %s/%d is assigned to %d members %v", s, p, len(owners), owners)
			}
			if !subscribed && len(owners) != 0 {
				g.mu.RUnlock()
				return fmt.Sprintf("partition %s/%d of a stream nobody subscribes to is assigned to %v", s, p, owners)
			}
		}
	}
	if len(g.members) != len(w.members) {
		g.mu.RUnlock()
		return fmt.Sprintf("group has %d members, expected %d", len(g.members), len(w.members))
	}
	single, singleStream := true, ""
	min, max := 1<<30, -1
	for id, m := range g.members {
		want := w.members[id]
		total := 0
		for s, ps := range m.assignments {
			total += len(ps)
			ok := false
			for _, x := range want {
				if x == s {
					ok = true
				}
			}
			if !ok && len(ps) > 0 {
				g.mu.RUnlock()
				return fmt.Sprintf("member %s is assigned %s%v although it did not subscribe to %s", id, s, ps, s)
			}
		}
		if total != m.assignedCount {
			g.mu.RUnlock()
			return fmt.Sprintf("member %s: assignedCount %d but %d partitions assigned", id, m.assignedCount, total)
		}
		if len(want) != 1 || (singleStream != "" && want[0] != singleStream) {
			single = false
		} else {
			singleStream = want[0]
		}
		if total < min {
			min = total
		}
		if total > max {
			max = total
		}
	}
	g.mu.RUnlock()
	if single && len(w.members) > 0 && max-min > 1 {
		return fmt.Sprintf("single-stream group: partition counts differ by %d (%s)", max-min, lbvcGroupState(g))
	}
	s0 := lbvcGroupState(w.groups[0])
	for i := 1; i < len(w.groups); i++ {
		if si := lbvcGroupState(w.groups[i]); si != s0 {
			return fmt.Sprintf("replicas that applied the same operations disagree: %s vs %s", s0, si)
		}
	}
	return ""
}

func TestLbvcBoundedGroups(t *testing.T) {
	depth := 6
	if os.Getenv("LBVC_TIER") == "thorough" {
		depth = 7
	}
	log := logger.NewLogger(0)
	log.Silent(true)
	evaluations := 0
	states := map[string]bool{}
	sample := ""
	var rec func(prefix []lbvcGroupOp) string
	rec = func(prefix []lbvcGroupOp) string {
		// rebuild the world for this prefix (groups cannot be cloned)
		w := lbvcNewGroupWorld(log)
		for _, op := range prefix {
			if err := w.apply(op); err != nil {
				return fmt.Sprintf("%v: operation refused: %v", prefix, err)
			}
		}
		if len(prefix) > 0 {
			evaluations++
			if bad := w.check(); bad != "" {
				return fmt.Sprintf("after %v: %s", prefix, bad)
			}
			st := fmt.Sprint(w.members, w.deleted) + lbvcGroupState(w.groups[0])
			states[st] = true
			if len(prefix) == depth && sample == "" && len(w.members) == 3 {
				sample = fmt.Sprintf("%v => %s", prefix, lbvcGroupState(w.groups[0]))
			}
		}
		if len(prefix) == depth {
			return ""
		}
		for _, op := range w.legalOps() {
			if bad := rec(append(append([]lbvcGroupOp{}, prefix...), op)); bad != "" {
				return bad
			}
		}
		return ""
	}
	bad := rec(nil)
	fmt.Printf("LBVC-BOUNDED-STATS evaluations=%d distinct=%d exhaustive=true depth=%d\n", evaluations, len(states), depth)
	if sample != "" {
		fmt.Printf("LBVC-BOUNDED-SAMPLE %s\n", sample)
	}
	if bad != "" {
		t.Fatalf("LBVC-BOUNDED-VIOLATION groups: %s", bad)
	}
}
