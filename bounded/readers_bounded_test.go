package commitlog

// BOUNDED stand-in for property C01 (not a proof): a live reader meeting appends and tail truncations. The forward
// readers (segment crossing, waiting for data, re-initialising on a replaced segment) are loops around blocking channel
// operations, outside the VC generator; what a reader returns while the log changes under it is enumerated here on the
// REAL commit log: every sequence, up to a stated length, of
//
//	A     append one message
//	T(o)  truncate to offset o, for every o from the reader's position to the log end (a tail truncation: it removes
//	      nothing the reader has been given and nothing below what it will ask for next)
//	R     the reader reads one message (a read that finds nothing returns after a short time-out)
//	H(h)  committed readers only: the high watermark advances to h (by one, never beyond the log end); truncations stay
//	      above the watermark; a committed reader is given nothing above it
//	W     only when the reader is at the end of the log: the reader starts a read, which has to wait; one message is
//	      appended while it waits; the read must return exactly that message
//
// over two segment sizes and several reader start offsets, with the reader opened before the sequence starts. The
// oracle is a list: a read returns the message at the reader's position if the log holds it (the offset the reader
// expects, with the value stored there NOW), otherwise nothing; offsets handed out are strictly increasing.

import (
	"context"
	"fmt"
	"os"
	"runtime"
	"sync"
	"testing"
	"time"
)

type lbvcROp struct {
	kind byte // 'A', 'T', 'R'
	arg  int64
}

func (o lbvcROp) String() string {
	if o.kind == 'T' || o.kind == 'H' {
		return fmt.Sprintf("%c(%d)", o.kind, o.arg)
	}
	return string(o.kind)
}

func TestLbvcBoundedReaders(t *testing.T) {
	depth := 6
	if os.Getenv("LBVC_TIER") == "thorough" {
		depth = 7
	}
	tmpBase := ""
	if st, err := os.Stat("/dev/shm"); err == nil && st.IsDir() {
		tmpBase = "/dev/shm"
	}
	var (
		mu          sync.Mutex
		evaluations int
		states      = map[string]bool{}
		bad, sample string
	)
	setBad := func(m string) {
		mu.Lock()
		if bad == "" {
			bad = m
		}
		mu.Unlock()
	}
	type cfg struct {
		segBytes  int64
		initial   int
		start     int64
		committed bool  // a committed reader: it is given nothing above the high watermark; H advances the watermark
		hw0       int64 // committed readers: the high watermark at the start
	}
	var cfgs []cfg
	for _, sb := range []int64{100, 1 << 20} { // 3 messages per segment / one segment
		for _, init := range []int{3, 5} {
			for _, start := range []int64{0, 2} {
				cfgs = append(cfgs, cfg{sb, init, start, false, -1})
			}
		}
	}
	// committed readers: the watermark in the reader's own segment, and in the next one
	cfgs = append(cfgs, cfg{100, 5, 2, true, 1}, cfg{100, 5, 2, true, 3}, cfg{100, 5, 0, true, 3})
	// a committed reader started inside the uncommitted tail (watermark + 1 < start <= newest offset, K55)
	cfgs = append(cfgs, cfg{100, 5, 3, true, 1}, cfg{100, 5, 4, true, 0})
	// run one sequence from scratch on the real log
	run := func(c cfg, seq []lbvcROp) {
		dir, err := os.MkdirTemp(tmpBase, "lbvc-rd-")
		if err != nil {
			return
		}
		defer os.RemoveAll(dir)
		lg, err := New(Options{Path: dir, MaxSegmentBytes: c.segBytes, HWCheckpointInterval: time.Hour})
		if err != nil {
			return
		}
		l := lg.(*commitLog)
		defer l.Close()
		var model []string // model[o] = value at offset o
		gen := 0
		app := func() {
			gen++
			v := fmt.Sprintf("v%d-g%d", len(model), gen)
			if _, err := l.Append([]*Message{{MagicByte: 1, Value: []byte(v), Timestamp: 1}}); err == nil {
				model = append(model, v)
			}
		}
		for i := 0; i < c.initial; i++ {
			app()
		}
		hw := int64(-1)
		if c.committed {
			hw = c.hw0
			l.SetHighWatermark(hw)
		}
		r, err := l.NewReader(c.start, !c.committed)
		if err != nil {
			return
		}
		pos := c.start
		hb := make([]byte, 28)
		desc := func(upto int) string {
			return fmt.Sprintf("segment bytes %d, %d messages, reader opened at %d, then %v", c.segBytes, c.initial, c.start, seq[:upto+1])
		}
		for i, op := range seq {
			switch op.kind {
			case 'A':
				app()
			case 'T':
				if err := l.Truncate(op.arg); err != nil {
					setBad(desc(i) + ": Truncate: " + err.Error())
					return
				}
				if op.arg < int64(len(model)) {
					model = model[:op.arg]
				}
			case 'W':
				type res struct {
					off int64
					val string
					err error
				}
				done := make(chan res, 1)
				ctx, cancel := context.WithTimeout(context.Background(), 5*time.Second)
				go func() {
					m, off, _, _, err := r.ReadMessage(ctx, hb)
					if err != nil {
						done <- res{err: err}
						return
					}
					done <- res{off: off, val: string(m.Value())}
				}()
				time.Sleep(3 * time.Millisecond)
				app()
				got := <-done
				timedOut := ctx.Err() != nil
				cancel()
				if got.err != nil && !timedOut {
					// the read failed at once with an error (an uncommitted reader cannot be (re)positioned at the very end
					// of the log): the caller is told, nothing is lost - it opens a new reader, which must find the message
					if r, err = l.NewReader(pos, true); err != nil {
						setBad(fmt.Sprintf("%s: no reader can be opened at offset %d although the log holds it: %v", desc(i), pos, err))
						return
					}
					ctx2, cancel2 := context.WithTimeout(context.Background(), 10*time.Second)
					m, off, _, _, err := r.ReadMessage(ctx2, hb)
					cancel2()
					if err != nil {
						got.err = err
					} else {
						got = res{off: off, val: string(m.Value())}
					}
				}
				if got.err != nil {
					setBad(fmt.Sprintf("%s: a reader waiting at the end of the log (offset %d) was not given the message appended while it waited (%v)", desc(i), pos, got.err))
					return
				}
				if got.off != pos || got.val != model[pos] {
					setBad(fmt.Sprintf("%s: the waiting reader returns offset %d (%q), the message appended for it is offset %d (%q)", desc(i), got.off, got.val, pos, model[pos]))
					return
				}
				pos++
			case 'R':
				have := pos < int64(len(model)) && (!c.committed || pos <= hw)
				// a read that has something to return is given plenty of time (a loaded machine must not look like a
				// lost message); one that has nothing to return is cut short
				wait := 25 * time.Millisecond
				if have {
					wait = 10 * time.Second
				}
				ctx, cancel := context.WithTimeout(context.Background(), wait)
				m, off, _, _, err := r.ReadMessage(ctx, hb)
				cancel()
				if err == nil && c.committed && off > hw {
					setBad(fmt.Sprintf("%s: the committed reader is handed offset %d (%q) although the high watermark is %d", desc(i), off, m.Value(), hw))
					return
				}
				switch {
				case err != nil && have:
					setBad(fmt.Sprintf("%s: the log holds offset %d (%q) but the reader returns nothing (%v)", desc(i), pos, model[pos], err))
					return
				case err == nil && !have:
					setBad(fmt.Sprintf("%s: the reader returns offset %d (%q) but the log ends at %d (high watermark %d)", desc(i), off, m.Value(), len(model)-1, hw))
					return
				case err == nil && (off != pos || string(m.Value()) != model[pos]):
					setBad(fmt.Sprintf("%s: the reader returns offset %d (%q), the next message for it is offset %d (%q)", desc(i), off, m.Value(), pos, model[pos]))
					return
				}
				if err == nil {
					pos++
				} else {
					// a reader whose read timed out is abandoned in the real system (the subscription's context ended):
					// open a fresh one at the same position, as a resubscribing client does
					if r, err = l.NewReader(pos, !c.committed); err != nil {
						return
					}
				}
			case 'H':
				hw = op.arg
				l.SetHighWatermark(hw)
			}
		}
		mu.Lock()
		evaluations++
		states[fmt.Sprint(c, pos, model)] = true
		if sample == "" && len(seq) == depth {
			sample = desc(len(seq) - 1)
		}
		mu.Unlock()
	}
	// enumerate sequences by DFS over a model (positions only), then run each complete sequence
	type job struct {
		c   cfg
		seq []lbvcROp
	}
	jobs := make(chan job, 256)
	var wg sync.WaitGroup
	for k := 0; k < runtime.NumCPU(); k++ {
		wg.Add(1)
		go func() {
			defer wg.Done()
			for j := range jobs {
				mu.Lock()
				stop := bad != ""
				mu.Unlock()
				if !stop {
					run(j.c, j.seq)
				}
			}
		}()
	}
	var gen func(c cfg, seq []lbvcROp, n, pos, hw int64)
	gen = func(c cfg, seq []lbvcROp, n, pos, hw int64) {
		if len(seq) == depth {
			jobs <- job{c, append([]lbvcROp{}, seq...)}
			return
		}
		// A
		gen(c, append(seq, lbvcROp{'A', 0}), n+1, pos, hw)
		// R
		np := pos
		if pos < n && (!c.committed || pos <= hw) {
			np = pos + 1
		}
		gen(c, append(seq, lbvcROp{'R', 0}), n, np, hw)
		if c.committed {
			// H: the watermark advances by one (never beyond the log end); truncations stay above it
			if hw+1 < n {
				gen(c, append(seq, lbvcROp{'H', hw + 1}), n, pos, hw+1)
			}
			lo := pos
			if hw+1 > lo {
				lo = hw + 1
			}
			for o := lo; o < n; o++ {
				gen(c, append(seq, lbvcROp{'T', o}), o, pos, hw)
			}
			return
		}
		// W: only at the end of the log
		if pos == n {
			gen(c, append(seq, lbvcROp{'W', 0}), n+1, pos+1, hw)
		}
		// T(o) for pos <= o < n (o == n changes nothing)
		for o := pos; o < n; o++ {
			gen(c, append(seq, lbvcROp{'T', o}), o, pos, hw)
		}
	}
	for _, c := range cfgs {
		gen(c, nil, int64(c.initial), c.start, c.hw0)
	}
	close(jobs)
	wg.Wait()
	fmt.Printf("LBVC-BOUNDED-STATS evaluations=%d distinct=%d exhaustive=true depth=%d\n", evaluations, len(states), depth)
	if sample != "" {
		fmt.Printf("LBVC-BOUNDED-SAMPLE %s\n", sample)
	}
	if bad != "" {
		t.Fatalf("LBVC-BOUNDED-VIOLATION readers: %s", bad)
	}
}
