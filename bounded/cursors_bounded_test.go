package server

// BOUNDED stand-in for property C11 (not a proof): what a fetch that misses the cache reads back from the cursors
// partition. The scan (getLatestCursorOffset) is a loop over a reverse subscription's channels - goroutines, channels and
// a select, outside the VC generator; its result is an assumed clause of the contract. Here the REAL server is driven
// through one long deterministic walk of cursor operations over five cursors of one cursors partition with small
// segments: store, fetch through the cache, fetch with the cache switched off (every such fetch runs the scan), purge of
// the cache, and a clean of the partition (compaction). Every fetch is compared with a map.

import (
	"context"
	"fmt"
	"os"
	"testing"
	"time"
)

func TestLbvcBoundedCursors(t *testing.T) {
	steps := 3000
	if os.Getenv("LBVC_TIER") == "thorough" {
		steps = 20000
	}
	defer cleanupStorage(t)
	cfg := getTestConfig("a", true, 5050)
	cfg.CursorsStream.Partitions = 1
	cfg.Streams.SegmentMaxBytes = 300 // a handful of cursor records per segment
	s1 := runServerWithConfig(t, cfg)
	defer s1.Stop()
	getMetadataLeader(t, 10*time.Second, s1)
	var p *partition
	for i := 0; i < 200; i++ {
		if p = s1.metadata.GetPartition(cursorsStream, 0); p != nil && p.IsLeader() {
			break
		}
		time.Sleep(50 * time.Millisecond)
	}
	if p == nil || !p.IsLeader() {
		t.Skip("cursors partition not available")
	}
	type key struct {
		id, stream string
		part       int32
	}
	keys := []key{{"c1", "foo", 0}, {"c2", "foo", 0}, {"c1", "bar", 1}, {"z", "foo", 3}, {"first", "s", 0}}
	model := map[key]int64{}
	var (
		evaluations int
		states      = map[string]bool{}
		bad, sample string
		rnd         = uint64(12345)
		history     []string
	)
	next := func(n int) int {
		rnd = rnd*6364136223846793005 + 1442695040888963407
		return int((rnd >> 33) % uint64(n))
	}
	ctx := context.Background()
	fetch := func(k key, how string) {
		got, st := s1.cursors.GetCursor(ctx, k.stream, k.id, k.part)
		want, ok := model[k]
		if !ok {
			want = -1
		}
		evaluations++
		if st != nil {
			bad = fmt.Sprintf("after %v: FetchCursor(%v) %s fails: %v", tail(history), k, how, st.Err())
		} else if got != want {
			bad = fmt.Sprintf("after %v: FetchCursor(%v) %s returns %d, the last cursor stored for it is %d", tail(history), k, how, got, want)
		}
	}
	value := int64(10)
	for i := 0; i < steps && bad == ""; i++ {
		k := keys[next(len(keys))]
		switch op := next(10); {
		case op < 4:
			value++
			history = append(history, fmt.Sprintf("set(%s,%s,%d)=%d", k.id, k.stream, k.part, value))
			c, cancel := context.WithTimeout(ctx, 10*time.Second)
			st := s1.cursors.SetCursor(c, k.stream, k.id, k.part, value)
			cancel()
			if st != nil {
				bad = fmt.Sprintf("after %v: SetCursor fails: %v", tail(history), st.Err())
				break
			}
			model[k] = value
		case op < 6:
			s1.cursors.disableCache = false
			fetch(k, "through the cache")
		case op < 9:
			s1.cursors.disableCache = true
			fetch(k, "with the cache off (scan of the cursors partition)")
			s1.cursors.disableCache = false
		default:
			if next(2) == 0 {
				history = append(history, "purge")
				s1.cursors.BecomePartitionLeader()
			} else {
				history = append(history, "clean")
				if err := p.log.Clean(); err != nil {
					bad = fmt.Sprintf("after %v: cleaning the cursors partition fails: %v", tail(history), err)
				}
			}
		}
		states[fmt.Sprint(model)] = true
	}
	if len(history) > 0 {
		sample = fmt.Sprintf("%d operations, the last ones %v; cursors partition holds offsets %d..%d", len(history), tail(history), p.log.OldestOffset(), p.log.NewestOffset())
	}
	fmt.Printf("LBVC-BOUNDED-STATS evaluations=%d distinct=%d exhaustive=false steps=%d\n", evaluations, len(states), steps)
	if sample != "" {
		fmt.Printf("LBVC-BOUNDED-SAMPLE %s\n", sample)
	}
	if bad != "" {
		t.Fatalf("LBVC-BOUNDED-VIOLATION cursors: %s", bad)
	}
}

func tail(h []string) []string {
	if len(h) > 6 {
		return h[len(h)-6:]
	}
	return h
}
