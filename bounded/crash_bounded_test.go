package commitlog

// BOUNDED stand-in for property C05 (not a proof): the REAL commit log runs a set of workloads (appends with
// segment rolls, leader-epoch changes, high-watermark checkpoints, truncation, compaction, retention); at EVERY hit
// of every crash point (crashpoint_verif.go: a point between two durable effects) the log directory is copied -
// the copy is what a process killed at that instant leaves behind. Every copy is then reopened with New and the
// property's sentences are checked against what had completed when the copy was taken.

import (
	"context"
	"fmt"
	"io"
	"os"
	"path/filepath"
	"sort"
	"strings"
	"testing"
	"time"
)

type lbvcCrashImage struct {
	dir       string
	point     string
	hit       int
	completed map[int64]string // offset -> "key=value" of every append that had returned
	inflight  map[int64]string // offsets of the append in progress (may or may not be there)
	mayLose   func(off int64) bool
	hw        int64
	desc      string
}

func lbvcCopyDir(src, dst string) error {
	os.MkdirAll(dst, 0o755)
	ents, err := os.ReadDir(src)
	if err != nil {
		return err
	}
	for _, e := range ents {
		if e.IsDir() {
			continue
		}
		in, err := os.Open(filepath.Join(src, e.Name()))
		if err != nil {
			continue // deleted concurrently
		}
		out, err := os.Create(filepath.Join(dst, e.Name()))
		if err == nil {
			io.Copy(out, in)
			out.Close()
		}
		in.Close()
	}
	return nil
}

type lbvcCrashRun struct {
	t         *testing.T
	root      string
	dir       string
	l         *commitLog
	completed map[int64]string
	inflight  map[int64]string
	mayLose   func(off int64) bool
	images    []*lbvcCrashImage
	hits        map[string]int
	desc        string
	next        int
	sizesBefore map[string]int64
}

func lbvcFileSizes(dir string) map[string]int64 {
	out := map[string]int64{}
	ents, _ := os.ReadDir(dir)
	for _, e := range ents {
		if fi, err := e.Info(); err == nil {
			out[e.Name()] = fi.Size()
		}
	}
	return out
}

func (r *lbvcCrashRun) hook(name string) {
	r.hookImage(name, -1)
	if name == "append:log-written" && r.sizesBefore != nil {
		// the write of the log bytes is not atomic either: the process can die after any prefix of it
		keeps := []int64{1, 27, 29}
		if os.Getenv("LBVC_TIER") == "thorough" {
			keeps = []int64{1, 10, 27, 28, 29, 45}
		}
		for _, keep := range keeps {
			r.hookImage(name+fmt.Sprintf("(torn after %d bytes)", keep), keep)
		}
	}
}

func (r *lbvcCrashRun) hookImage(name string, tornKeep int64) {
	r.hits[name]++
	img := &lbvcCrashImage{point: name, hit: r.hits[name], completed: map[int64]string{}, inflight: map[int64]string{}, mayLose: r.mayLose, desc: r.desc}
	for k, v := range r.completed {
		img.completed[k] = v
	}
	for k, v := range r.inflight {
		img.inflight[k] = v
	}
	img.hw = r.l.hw // (the log mutex may be held by the caller of the crash point)
	img.dir = filepath.Join(r.root, fmt.Sprintf("img-%d", len(r.images)))
	lbvcCopyDir(r.dir, img.dir)
	if tornKeep >= 0 {
		torn := false
		for name, sz := range lbvcFileSizes(img.dir) {
			if !strings.HasSuffix(name, ".log") && !strings.Contains(name, ".log.") {
				continue
			}
			before, ok := r.sizesBefore[name]
			if ok && sz > before && before+tornKeep < sz {
				os.Truncate(filepath.Join(img.dir, name), before+tornKeep)
				torn = true
			}
		}
		if !torn {
			os.RemoveAll(img.dir)
			r.hits[name]--
			return
		}
	}
	r.images = append(r.images, img)
}

func (r *lbvcCrashRun) append(key string, epoch uint64) {
	var k []byte
	if key != "" {
		k = []byte(key)
	}
	val := fmt.Sprintf("v%d", r.next)
	r.next++
	off := r.l.NewestOffset() + 1
	r.inflight = map[int64]string{off: key + "=" + val}
	r.sizesBefore = lbvcFileSizes(r.dir)
	offs, err := r.l.Append([]*Message{{MagicByte: 1, Key: k, Value: []byte(val), Timestamp: int64(100 + r.next), LeaderEpoch: epoch}})
	r.inflight = map[int64]string{}
	r.sizesBefore = nil
	if err == nil && len(offs) == 1 {
		r.completed[offs[0]] = key + "=" + val
	}
}

func lbvcReadImage(l *commitLog) (offs []int64, vals []string, err error) {
	oldest := l.OldestOffset()
	newest := l.NewestOffset()
	if oldest < 0 || newest < 0 {
		return nil, nil, nil
	}
	r, err := l.NewReader(oldest, true)
	if err != nil {
		return nil, nil, err
	}
	hb := make([]byte, 28)
	last := oldest - 1
	for i := 0; i < 1000; i++ {
		// up to the newest offset every read finds a message (long time-out: a loaded machine must not look like a lost
		// message); beyond it the read is a probe for a phantom message and is cut short
		wait := 30 * time.Millisecond
		if last < newest {
			wait = 10 * time.Second
		}
		ctx, cancel := context.WithTimeout(context.Background(), wait)
		m, off, _, _, err := r.ReadMessage(ctx, hb)
		if err == nil {
			last = off
		}
		cancel()
		if err != nil {
			break
		}
		offs = append(offs, off)
		vals = append(vals, string(m.Key())+"="+string(m.Value()))
		if off >= newest && len(offs) > 0 && i > 0 && off == offs[len(offs)-1] && off >= newest {
			// keep reading one more: a duplicated or phantom message may follow the newest offset
		}
		if off > newest+2 {
			break
		}
	}
	return offs, vals, nil
}

// lbvcReadEpochs: the leader epoch of every message the log holds, by offset
func lbvcReadEpochs(l *commitLog) map[int64]uint64 {
	out := map[int64]uint64{}
	oldest, newest := l.OldestOffset(), l.NewestOffset()
	if oldest < 0 || newest < 0 {
		return out
	}
	r, err := l.NewReader(oldest, true)
	if err != nil {
		return out
	}
	hb := make([]byte, 28)
	for i := 0; i < 1000; i++ {
		ctx, cancel := context.WithTimeout(context.Background(), 10*time.Second)
		_, off, _, ep, err := r.ReadMessage(ctx, hb)
		cancel()
		if err != nil {
			break
		}
		out[off] = ep
		if off >= newest {
			break
		}
	}
	return out
}

// check one crash image; returns what is wrong, or ""
func lbvcCheckImage(img *lbvcCrashImage, opts Options) (bad string) {
	defer func() {
		if r := recover(); r != nil {
			msg := fmt.Sprint(r)
			if len(msg) > 200 {
				msg = msg[:200]
			}
			bad = fmt.Sprintf("%s, crash at %s (hit %d): using the reopened log panics: %s", img.desc, img.point, img.hit, msg)
		}
	}()
	opts.Path = img.dir
	lg, err := New(opts)
	if err != nil {
		return fmt.Sprintf("reopening fails: %v", err)
	}
	l := lg.(*commitLog)
	defer l.Close()
	where := fmt.Sprintf("%s, crash at %s (hit %d)", img.desc, img.point, img.hit)
	offs, vals, err := lbvcReadImage(l)
	if err != nil {
		return fmt.Sprintf("%s: reading the reopened log fails: %v", where, err)
	}
	seen := map[int64]bool{}
	for i, o := range offs {
		if i > 0 && o <= offs[i-1] {
			return fmt.Sprintf("%s: the reopened log reads offsets %v (duplicated or out of order)", where, offs)
		}
		seen[o] = true
		want, ok := img.completed[o]
		if !ok {
			want, ok = img.inflight[o]
		}
		if !ok {
			return fmt.Sprintf("%s: the reopened log holds a message at offset %d (%q) that was never appended (reads %v)", where, o, vals[i], offs)
		}
		if vals[i] != want {
			return fmt.Sprintf("%s: offset %d reads %q after the crash, the completed append stored %q", where, o, vals[i], want)
		}
	}
	// retention removes whole segments from the oldest end only, a truncation from the newest end only: whatever
	// instant the process died at, what is left is a contiguous run of offsets, not a log with a hole in it
	if strings.Contains(img.desc, "workload retention") || strings.Contains(img.desc, "workload truncate") {
		for i := 1; i < len(offs); i++ {
			if offs[i] != offs[i-1]+1 {
				return fmt.Sprintf("%s: the reopened log reads offsets %v - a hole in the middle of the log: a segment was removed that was neither the oldest one left (retention) nor the newest (truncation)", where, offs)
			}
		}
	}
	var missing []int64
	for o := range img.completed {
		if !seen[o] && !(img.mayLose != nil && img.mayLose(o)) {
			missing = append(missing, o)
		}
	}
	if len(missing) > 0 {
		sort.Slice(missing, func(i, j int) bool { return missing[i] < missing[j] })
		return fmt.Sprintf("%s: completed appends at offsets %v are gone after the crash (reopened log reads %v)", where, missing, offs)
	}
	if newest := l.NewestOffset(); (len(offs) == 0 && newest >= 0 && newest >= l.OldestOffset() && l.OldestOffset() >= 0) || (len(offs) > 0 && newest != offs[len(offs)-1]) {
		return fmt.Sprintf("%s: the reopened log reports newest offset %d but the messages that can be read are %v (an offset without a message)", where, newest, offs)
	}
	if hw := l.HighWatermark(); hw > img.hw {
		return fmt.Sprintf("%s: recovered high watermark %d is above the one before the crash (%d)", where, hw, img.hw)
	}
	// the leader-epoch history of the reopened log matches the messages it holds (append and truncation workloads, whose
	// logs are dense: a truncation cuts the history at the same offset as the log, and only AFTER the messages are gone;
	// compaction and retention rebuild / move the history on purpose): one more message of the newest epoch is appended, then for every epoch
	// change in the log the end of the earlier epoch is where the later one's first message is
	if strings.Contains(img.desc, "workload append") || strings.Contains(img.desc, "workload truncate") {
		eps := lbvcReadEpochs(l)
		if n := l.NewestOffset(); n >= 0 && len(eps) > 0 {
			if got, err := l.Append([]*Message{{MagicByte: 1, Key: []byte("same"), Value: []byte("epoch"), Timestamp: 998, LeaderEpoch: eps[n]}}); err == nil {
				if len(got) != 1 || got[0] != n+1 {
					return fmt.Sprintf("%s: append after reopening got offset %v, newest was %d", where, got, n)
				}
				eps[n+1] = eps[n]
				img.completed[n+1] = "same=epoch"
				for o := l.OldestOffset() + 1; o <= n+1; o++ {
					if eps[o] > eps[o-1] {
						if got := l.LastOffsetForLeaderEpoch(eps[o-1]); got != o {
							return fmt.Sprintf("%s: in the reopened log epoch %d starts at offset %d (the message is there), but after one more append in that epoch the log answers %d for the end of epoch %d - the epoch of the message written last before the crash was not recorded", where, eps[o], o, got, eps[o-1])
						}
					}
				}
			}
		}
	}
	// the reopened log must keep working: the next append gets a fresh offset and reads back
	newest := l.NewestOffset()
	no, err := l.Append([]*Message{{MagicByte: 1, Key: []byte("after"), Value: []byte("crash"), Timestamp: 999, LeaderEpoch: 9}})
	if err != nil || len(no) != 1 {
		return fmt.Sprintf("%s: appending to the reopened log fails: %v", where, err)
	}
	if no[0] != newest+1 {
		return fmt.Sprintf("%s: append after reopening got offset %d, newest was %d", where, no[0], newest)
	}
	offs2, vals2, _ := lbvcReadImage(l)
	cnt := 0
	for i, o := range offs2 {
		if i > 0 && o <= offs2[i-1] {
			return fmt.Sprintf("%s: after one more append the log reads offsets %v (duplicated offset: bytes of a torn append were kept)", where, offs2)
		}
		if o == no[0] {
			cnt++
			if vals2[i] != "after=crash" {
				return fmt.Sprintf("%s: the message appended after reopening reads back as %q", where, vals2[i])
			}
		}
	}
	if cnt != 1 {
		return fmt.Sprintf("%s: the message appended after reopening is read %d times (offsets %v)", where, cnt, offs2)
	}
	// every message present is found by a reader started at its own offset
	for _, o := range offs2 {
		r, err := l.NewReader(o, true)
		if err != nil {
			return fmt.Sprintf("%s: a reader started at offset %d of the reopened log fails: %v (log reads %v)", where, o, err, offs2)
		}
		hb := make([]byte, 28)
		ctx, cancel := context.WithTimeout(context.Background(), 10*time.Second)
		_, got, _, _, err := r.ReadMessage(ctx, hb)
		cancel()
		if err != nil || got != o {
			return fmt.Sprintf("%s: a reader started at offset %d of the reopened log returns offset %d (err %v); the log reads %v", where, o, got, err, offs2)
		}
	}
	// a clean (retention / compaction) of the reopened log removes messages only: nothing that was gone comes back,
	// nothing is duplicated
	if opts.Compact || opts.MaxLogMessages > 0 {
		before := map[int64]string{}
		for i, o := range offs2 {
			before[o] = vals2[i]
		}
		l.SetHighWatermark(l.NewestOffset())
		if err := l.Clean(); err != nil {
			return fmt.Sprintf("%s: cleaning the reopened log fails: %v", where, err)
		}
		offs3, vals3, _ := lbvcReadImage(l)
		for i, o := range offs3 {
			if i > 0 && o <= offs3[i-1] {
				return fmt.Sprintf("%s: after cleaning the reopened log it reads offsets %v (duplicated or out of order)", where, offs3)
			}
			if v, ok := before[o]; !ok || v != vals3[i] {
				return fmt.Sprintf("%s: after cleaning the reopened log offset %d reads %q; before the clean the log read %v (a message that had been removed is back, or changed)", where, o, vals3[i], offs2)
			}
		}
	}
	return ""
}

func TestLbvcBoundedCrash(t *testing.T) {
	root, err := os.MkdirTemp("", "lbvc-crash-")
	if err != nil {
		t.Skip(err)
	}
	defer os.RemoveAll(root)
	thorough := os.Getenv("LBVC_TIER") == "thorough"
	segSizes := []int64{70, 200}
	if thorough {
		segSizes = []int64{70, 110, 200, 1 << 20}
	}
	evaluations := 0
	points := map[string]bool{}
	var firstBad, sample string
	badByPoint := map[string]string{}
	workloads := []string{"append", "truncate", "truncate-to-zero", "truncate-at-segment-base", "compact", "retention"}
	for _, wl := range workloads {
		for _, seg := range segSizes {
			run := &lbvcCrashRun{t: t, root: filepath.Join(root, fmt.Sprintf("%s-%d", wl, seg)), completed: map[int64]string{}, inflight: map[int64]string{}, hits: map[string]int{}}
			run.dir = filepath.Join(run.root, "log")
			os.MkdirAll(run.dir, 0o755)
			opts := Options{Path: run.dir, MaxSegmentBytes: seg, Logger: noopLogger()}
			switch wl {
			case "compact":
				opts.Compact = true
			case "retention":
				opts.MaxLogMessages = 4
			}
			lg, err := New(opts)
			if err != nil {
				t.Skip(err)
			}
			run.l = lg.(*commitLog)
			run.desc = fmt.Sprintf("workload %s, segment bytes %d", wl, seg)
			crashHook = run.hook
			keys := []string{"a", "b", "a", "", "c", "a", "b", "d", "c", "a"}
			for i, k := range keys {
				run.append(k, uint64(1+i/4))
				if i%3 == 2 {
					run.l.SetHighWatermark(run.l.NewestOffset() - 1)
					run.l.checkpointHW()
				}
			}
			cuts := []int64{7, 4}
			switch wl {
			case "truncate-to-zero":
				cuts = []int64{0}
			case "truncate-at-segment-base":
				if segs := run.l.Segments(); len(segs) >= 3 {
					cuts = []int64{segs[len(segs)-2].BaseOffset, segs[1].BaseOffset}
				}
			}
			switch wl {
			case "truncate", "truncate-to-zero", "truncate-at-segment-base":
				for _, cut := range cuts {
					c := cut
					run.mayLose = func(off int64) bool { return off >= c }
					run.l.Truncate(c)
					for o := range run.completed {
						if o >= c {
							delete(run.completed, o)
						}
					}
					run.mayLose = nil
					run.append("t", 5)
				}
			case "compact":
				run.l.SetHighWatermark(run.l.NewestOffset() - 2)
				hw := run.l.HighWatermark()
				newestBase := run.l.Segments()[len(run.l.Segments())-1].BaseOffset
				latest := map[string]int64{}
				for o, v := range run.completed {
					k := strings.SplitN(v, "=", 2)[0]
					if k == "" || o > hw {
						continue
					}
					if cur, ok := latest[k]; !ok || o > cur {
						latest[k] = o
					}
				}
				sup := map[int64]bool{}
				for off, v := range run.completed {
					k := strings.SplitN(v, "=", 2)[0]
					if k != "" && off < hw && off < newestBase && latest[k] != off {
						sup[off] = true
					}
				}
				run.mayLose = func(off int64) bool { return sup[off] }
				run.l.Clean()
				for o := range sup {
					delete(run.completed, o)
				}
				run.mayLose = nil
				run.append("z", 6)
			case "retention":
				limit := run.l.NewestOffset() - 3
				run.mayLose = func(off int64) bool { return off < limit }
				run.l.Clean()
				oldest := run.l.OldestOffset()
				for o := range run.completed {
					if o < oldest {
						delete(run.completed, o)
					}
				}
				run.mayLose = nil
				run.append("r", 6)
			}
			crashHook = nil
			run.l.Close()
			// a SECOND death, while the restart that follows the first is dealing with what the first left behind (the
			// removals / renames of recovery are file-system effects like any other): the image is reopened on a copy with
			// the hook armed; every hit of a recovery crash point gives a second-level image, checked like the first
			var second []*lbvcCrashImage
			for _, img := range run.images {
				work := img.dir + "-recovering"
				if lbvcCopyDir(img.dir, work) != nil {
					continue
				}
				hits := 0
				crashHook = func(name string) {
					if !strings.HasPrefix(name, "recover:") {
						return
					}
					hits++
					dst := fmt.Sprintf("%s-2nd-%d", img.dir, hits)
					if lbvcCopyDir(work, dst) != nil {
						return
					}
					second = append(second, &lbvcCrashImage{dir: dst, point: img.point + " and again, in the restart, at " + name, hit: img.hit,
						completed: img.completed, inflight: img.inflight, mayLose: img.mayLose, hw: img.hw, desc: img.desc})
				}
				o2 := opts
				o2.Path = work
				func() {
					defer func() { recover() }()
					if lg, err := New(o2); err == nil {
						lg.Close()
					}
				}()
				crashHook = nil
				os.RemoveAll(work)
			}
			run.images = append(run.images, second...)
			for _, img := range run.images {
				evaluations++
				points[img.point] = true
				o := opts
				if bad := lbvcCheckImage(img, o); bad != "" {
					if firstBad == "" {
						firstBad = bad
					}
					if _, ok := badByPoint[img.point]; !ok {
						badByPoint[img.point] = bad
					}
				}
				if sample == "" && img.point == "append:log-written" && img.hit == 3 {
					sample = fmt.Sprintf("%s, image taken at %s (hit %d): %d completed appends, reopened and verified", img.desc, img.point, img.hit, len(img.completed))
				}
				os.RemoveAll(img.dir)
			}
		}
	}
	// a rewrite abandoned half-way WITHOUT a restart (an error in the middle of a clean, emulated by unwinding out of
	// Clean at the crash point): the next clean of the same, still open log must not pick up what was left behind
	for _, seg := range segSizes {
		dir := filepath.Join(root, fmt.Sprintf("abandoned-%d", seg))
		os.MkdirAll(dir, 0o755)
		lg, err := New(Options{Path: dir, MaxSegmentBytes: seg, Logger: noopLogger(), Compact: true})
		if err != nil {
			continue
		}
		l := lg.(*commitLog)
		stored := map[int64]string{}
		for i, k := range []string{"a", "b", "a", "", "c", "a", "b", "d", "c", "a"} {
			var kb []byte
			if k != "" {
				kb = []byte(k)
			}
			if offs, err := l.Append([]*Message{{MagicByte: 1, Key: kb, Value: []byte(fmt.Sprintf("v%d", i)), Timestamp: int64(100 + i), LeaderEpoch: 1}}); err == nil {
				stored[offs[0]] = k + "=" + fmt.Sprintf("v%d", i)
			}
		}
		l.SetHighWatermark(l.NewestOffset() - 2)
		hits := 0
		crashHook = func(name string) {
			if name == "compact:survivor-written" {
				hits++
				if hits == 2 {
					panic("lbvc: abandon the clean here")
				}
			}
		}
		func() {
			defer func() { recover() }()
			l.Clean()
		}()
		crashHook = nil
		evaluations++
		if hits >= 2 {
			if err := l.Clean(); err != nil {
				firstBad = fmt.Sprintf("abandoned clean, segment bytes %d: the next clean fails: %v", seg, err)
				badByPoint["compact:abandoned-in-process"] = firstBad
			} else {
				offs, vals, _ := lbvcReadImage(l)
				for i, o := range offs {
					if (i > 0 && o <= offs[i-1]) || stored[o] != vals[i] {
						bad := fmt.Sprintf("clean abandoned after the second survivor (segment bytes %d), then cleaned again in the same process: the log reads offsets %v (duplicated, or a message changed)", seg, offs)
						if firstBad == "" {
							firstBad = bad
						}
						badByPoint["compact:abandoned-in-process"] = bad
						break
					}
				}
			}
		}
		l.Close()
	}
	var ps []string
	for p := range points {
		ps = append(ps, p)
	}
	sort.Strings(ps)
	fmt.Printf("LBVC-BOUNDED-STATS evaluations=%d distinct=%d exhaustive=true crash_points=%s\n", evaluations, len(points), strings.Join(ps, ","))
	if sample != "" {
		fmt.Printf("LBVC-BOUNDED-SAMPLE %s\n", sample)
	}
	if firstBad != "" {
		var bp []string
		for p := range badByPoint {
			bp = append(bp, p)
		}
		sort.Strings(bp)
		for _, p := range bp {
			fmt.Printf("LBVC-BOUNDED-DETAIL %s: %s\n", p, badByPoint[p])
		}
		t.Fatalf("LBVC-BOUNDED-VIOLATION crash: %s (crash points with a failing image: %s)", firstBad, strings.Join(bp, ", "))
	}
}
